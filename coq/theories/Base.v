(* Base.v — small definitions shared by every model and by the generated cases files. *)
From Coq Require Import List NArith Bool.
Import ListNotations.
Open Scope N_scope.

Fixpoint list_eqb {A} (eqb : A -> A -> bool) (a b : list A) : bool :=
  match a, b with
  | [], [] => true
  | x :: a', y :: b' => eqb x y && list_eqb eqb a' b'
  | _, _ => false
  end.

Fixpoint nodupb (l : list N) : bool :=
  match l with [] => true | x :: r => negb (existsb (N.eqb x) r) && nodupb r end.

(* indices (starting at i) of the elements on which f is false *)
Fixpoint failing_idx {A} (f : A -> bool) (i : N) (l : list A) : list N :=
  match l with
  | [] => []
  | x :: r => if f x then failing_idx f (i + 1) r else i :: failing_idx f (i + 1) r
  end.

Definition option_eqb {A} (eqb : A -> A -> bool) (a b : option A) : bool :=
  match a, b with
  | Some x, Some y => eqb x y
  | None, None => true
  | _, _ => false
  end.

Lemma list_eqb_eq {A} (eqb : A -> A -> bool) :
  (forall x y, eqb x y = true <-> x = y) -> forall a b, list_eqb eqb a b = true <-> a = b.
Proof.
  intros H a; induction a as [|x a IH]; intros [|y b]; simpl; split; intro E;
    try discriminate; try reflexivity.
  - apply andb_true_iff in E as [E1 E2]. apply H in E1. apply IH in E2. now subst.
  - inversion E; subst. apply andb_true_iff; split; [now apply H | now apply IH].
Qed.

Lemma failing_idx_nil {A} (f : A -> bool) i l :
  failing_idx f i l = [] <-> Forall (fun x => f x = true) l.
Proof.
  revert i; induction l as [|x l IH]; intro i; simpl.
  - split; auto.
  - destruct (f x) eqn:E.
    + rewrite IH. split; intro H; [constructor; auto | now inversion H].
    + split; intro H; [discriminate | inversion H; congruence].
Qed.

(* ---------- association maps keyed by N (Go maps; delete removes every binding) ---------- *)
Section AMap.
  Context {V : Type}.
  Fixpoint aget (k : N) (m : list (N * V)) : option V :=
    match m with
    | [] => None
    | (q, v) :: r => if N.eqb k q then Some v else aget k r
    end.
  Fixpoint aput (k : N) (v : V) (m : list (N * V)) : list (N * V) :=
    match m with
    | [] => [(k, v)]
    | (q, w) :: r => if N.eqb k q then (q, v) :: r else (q, w) :: aput k v r
    end.
  Definition adel (k : N) (m : list (N * V)) : list (N * V) :=
    filter (fun x => negb (N.eqb (fst x) k)) m.

  Lemma aget_aput_eq k v m : aget k (aput k v m) = Some v.
  Proof.
    induction m as [|[q w] m IH]; simpl; [now rewrite N.eqb_refl|].
    destruct (N.eqb_spec k q); simpl; [subst; now rewrite N.eqb_refl|].
    destruct (N.eqb_spec k q); [contradiction | exact IH].
  Qed.
  Lemma aget_aput_neq k k' v m : k <> k' -> aget k' (aput k v m) = aget k' m.
  Proof.
    intro Hn. induction m as [|[q w] m IH]; simpl.
    - destruct (N.eqb_spec k' k); [congruence | reflexivity].
    - destruct (N.eqb_spec k q); simpl.
      + subst. destruct (N.eqb_spec k' q); [congruence | reflexivity].
      + destruct (N.eqb_spec k' q); [reflexivity | exact IH].
  Qed.
  Lemma aget_adel_eq k m : aget k (adel k m) = None.
  Proof.
    induction m as [|[q w] m IH]; simpl; [reflexivity|].
    destruct (N.eqb_spec q k); simpl; [exact IH|].
    destruct (N.eqb_spec k q); [congruence | exact IH].
  Qed.
  Lemma aget_adel_neq k k' m : k <> k' -> aget k' (adel k m) = aget k' m.
  Proof.
    intro Hn. induction m as [|[q w] m IH]; simpl; [reflexivity|].
    destruct (N.eqb_spec q k); simpl.
    - subst. destruct (N.eqb_spec k' k); [congruence | exact IH].
    - destruct (N.eqb_spec k' q); [reflexivity | exact IH].
  Qed.
  Lemma aget_none_nil m : (forall k, aget k m = None) -> m = [].
  Proof.
    destruct m as [|[q w] m]; [reflexivity|]. intro H. specialize (H q). simpl in H.
    now rewrite N.eqb_refl in H.
  Qed.
End AMap.

(* ---------- more facts about association maps ---------- *)
Lemma nodup_snoc (l : list N) k : NoDup l -> ~ In k l -> NoDup (l ++ [k]).
Proof.
  induction l as [|a l IH]; simpl; intros H Hn.
  - constructor; [intros [] | constructor].
  - inversion H; subst. constructor.
    + rewrite in_app_iff. simpl. intros [?|[?|[]]]; [contradiction|]. apply Hn. now left.
    + apply IH; [assumption|]. intro; apply Hn; now right.
Qed.

Lemma existsb_eqb_in' p (l : list N) : existsb (N.eqb p) l = true <-> In p l.
Proof.
  rewrite existsb_exists. split.
  - intros [x [Hx E]]. apply N.eqb_eq in E. now subst.
  - intro H. exists p. split; [exact H | apply N.eqb_refl].
Qed.

Lemma keys_aput {V} k (v : V) m :
  map fst (aput k v m) = if existsb (N.eqb k) (map fst m) then map fst m else map fst m ++ [k].
Proof.
  induction m as [|[q w] m IH]; simpl; [reflexivity|].
  destruct (N.eqb_spec k q); simpl; [reflexivity|]. rewrite IH.
  destruct (existsb (N.eqb k) (map fst m)); reflexivity.
Qed.

Lemma nodup_aput {V} k (v : V) m : NoDup (map fst m) -> NoDup (map fst (aput k v m)).
Proof.
  intro H. rewrite keys_aput. destruct (existsb (N.eqb k) (map fst m)) eqn:E; [exact H|].
  apply nodup_snoc; [exact H|]. intro Hin. apply existsb_eqb_in' in Hin. congruence.
Qed.

Lemma nodup_adel {V} k (m : list (N * V)) : NoDup (map fst m) -> NoDup (map fst (adel k m)).
Proof.
  unfold adel. induction m as [|[q w] m IH]; simpl; intro H; [constructor|].
  inversion H; subst. destruct (N.eqb q k); simpl; [now apply IH|].
  constructor; [|now apply IH]. intro Hin. apply in_map_iff in Hin as (z & Ez & Hz).
  apply filter_In in Hz as [Hz _]. match goal with H : ~ In _ _ |- _ => apply H end.
  rewrite <- Ez. now apply in_map.
Qed.

Lemma aget_in {V} k (v : V) m : aget k m = Some v -> In (k, v) m.
Proof.
  induction m as [|[q w] m IH]; simpl; [discriminate|].
  destruct (N.eqb_spec k q); intro H; [inversion H; subst; now left | right; now apply IH].
Qed.

Lemma in_aget {V} k (v : V) m : NoDup (map fst m) -> In (k, v) m -> aget k m = Some v.
Proof.
  induction m as [|[q w] m IH]; simpl; intros Hn Hin; [contradiction|].
  inversion Hn; subst. destruct Hin as [E|Hin].
  - inversion E; subst. now rewrite N.eqb_refl.
  - destruct (N.eqb_spec k q) as [->|]; [|now apply IH].
    exfalso. match goal with H : ~ In _ _ |- _ => apply H end. change q with (fst (q, v)). now apply in_map.
Qed.

Lemma NoDup_app_iff_disj {A} (a b : list A) :
  NoDup a -> NoDup b -> (forall x, In x a -> In x b -> False) -> NoDup (a ++ b).
Proof.
  induction a as [|x a IH]; simpl; intros Ha Hb Hd; [exact Hb|].
  inversion Ha; subst. constructor.
  - rewrite in_app_iff. intros [H|H]; [contradiction | apply (Hd x); auto].
  - apply IH; auto. intros y Hy1 Hy2. apply (Hd y); auto.
Qed.
