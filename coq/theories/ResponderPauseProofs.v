(* ResponderPauseProofs.v — C06, responder side, over the model of ResponderPause.v:
   (1) while a response is paused no message for it carries block data (any number of requests, any schedule);
   (2) for a response alone on the peer, any schedule of steps, API pauses, hook pauses and unpauses yields a prefix
       of the stream of the uninterrupted response (statuses apart), the whole stream once it has finished. *)
From Coq Require Import List NArith Bool Lia.
From GS Require Import Base Ltree LinkTracker Responder ResponderPause.
Import ListNotations.
Open Scope N_scope.

Definition pact_req (a : pact) : req :=
  match a with PA (SStart r) | PA (SStep r) | PA (SStartPaused r) | PA (SUnpause r) | PPause r | PUnpause r => r end.

Lemma msg_of_req fs o out m : In m (msg_of fs o out) -> wm_req m = req_of o /\ (wm_blocks m <> [] -> exists c h, o = LRecord (req_of o) c h).
Proof.
  destruct o; destruct out; cbn; try contradiction; intros [<-|[]]; cbn; split; auto; try congruence. intros _. eauto.
Qed.

Lemma msg_rec_req fs r c h out m : In m (msg_of fs (LRecord r c h) out) -> wm_req m = r.
Proof. intro H. apply msg_of_req in H. tauto. Qed.
Lemma msg_fin fs r out m : In m (msg_of fs (LFinish r) out) -> wm_req m = r /\ wm_blocks m = [].
Proof. destruct out; cbn; try contradiction. intros [<-|[]]. auto. Qed.
Ltac mreq x := match goal with Hin : In ?m _ |- wm_req ?m = _ =>
  first [ exact (msg_rec_req (rs_fs x) _ _ _ _ _ Hin) | exact (proj1 (msg_fin (rs_fs x) _ _ _ Hin)) ] end.

Definition sact_req (a : sact) : req := match a with SStart r | SStep r | SStartPaused r | SUnpause r => r end.
Definition base_act (a : sact) : bool := match a with SStart _ | SStep _ => true | _ => false end.
Lemma sim_step_req s sts a s' sts' ms : base_act a = true ->
  sim_step s sts a = (s', sts', ms) -> forall m, In m ms -> wm_req m = sact_req a.
Proof.
  intro Hb. destruct a as [r|r|r|r]; try discriminate Hb; cbn [sim_step sim_start sact_req]; unfold sim_start.
  - destruct (rst_find r sts) as [x|]; [destruct (rs_started x)|]; intro E; inversion E; subst; intros m [].
  - destruct (rst_find r sts) as [x|]; [|intro E; inversion E; subst; intros m []].
    destruct (negb (rs_started x)); [intro E; inversion E; subst; intros m []|].
    destruct (rs_steps x) as [|st rest]; [intro E; inversion E; subst; intros m []|].
    destruct st as [[c h]|].
    + destruct (lstep s (LRecord r c h)) as [[s1 out] ok1]. destruct rest as [|st2 rest'].
      * destruct (lstep s1 (LFinish r)) as [[s2 out2] ok2]. intro E; inversion E; subst. intros m Hin.
        apply in_app_iff in Hin as [Hin|Hin]; mreq x.
      * intro E; inversion E; subst. intros m Hin. rewrite app_nil_r in Hin. mreq x.
    + destruct rest as [|st2 rest'].
      * destruct (lstep s (LFinish r)) as [[s2 out2] ok2]. intro E; inversion E; subst. intros m Hin.
        cbn [app] in Hin. mreq x.
      * intro E; inversion E; subst. intros m [].
Qed.

Lemma psim_step_req s sts pis a s' sts' pis' ms :
  psim_step s sts pis a = (s', sts', pis', ms) -> forall m, In m ms -> wm_req m = pact_req a.
Proof.
  destruct a as [[r|r|r|r]|r|r]; cbn [psim_step pact_req];
    try (intro E; inversion E; subst; intros m []; fail).
  - destruct (sim_step s sts (SStart r)) as [[s1 sts1] ms1] eqn:Es. intro E; inversion E; subst. exact (sim_step_req _ _ (SStart r) _ _ _ eq_refl Es).
  - destruct (aget r pis) as [pi|]; [|intro E; inversion E; subst; intros m []].
    destruct (rst_find r sts) as [x|]; [|intro E; inversion E; subst; intros m []].
    destruct (pi_paused pi || negb (rs_started x)); [intro E; inversion E; subst; intros m []|].
    destruct (rs_steps x) as [|[[c h]|] rest]; [intro E; inversion E; subst; intros m []| |].
    + destruct (lstep s (LRecord r c h)) as [[s1 out] ok1].
      destruct (pi_signal pi || _).
      * intro E; inversion E; subst. intros m Hin. apply in_map_iff in Hin as (m0 & <- & Hin). cbn [set_status wm_req]. mreq x.
      * destruct rest as [|st2 rest'].
        -- destruct (lstep s1 (LFinish r)) as [[s2 out2] ok2]. intro E; inversion E; subst. intros m Hin.
           apply in_app_iff in Hin as [Hin|Hin]; mreq x.
        -- intro E; inversion E; subst. intros m Hin. rewrite app_nil_r in Hin. mreq x.
    + destruct (sim_step s sts (SStep r)) as [[s1 sts1] ms1] eqn:Es. intro E; inversion E; subst. exact (sim_step_req _ _ (SStep r) _ _ _ eq_refl Es).
  - destruct (aget r pis) as [pi|]; [destruct (pi_paused pi)|]; intro E; inversion E; subst; intros m [].
  - destruct (aget r pis) as [pi|]; [|intro E; inversion E; subst; intros m []].
    destruct (rst_find r sts) as [x|]; [|intro E; inversion E; subst; intros m []].
    destruct (pi_paused pi); [|intro E; inversion E; subst; intros m []].
    destruct (pi_finpending pi); [|intro E; inversion E; subst; intros m []].
    destruct (lstep s (LFinish r)) as [[s1 out] ok1]. intro E; inversion E; subst. intros m Hin. mreq x.
Qed.

(* (1) While a response is paused, no message for it carries block data. *)
Theorem paused_no_blocks s sts pis a s' sts' pis' ms r pi :
  psim_step s sts pis a = (s', sts', pis', ms) -> aget r pis = Some pi -> pi_paused pi = true ->
  forall m, In m ms -> wm_req m = r -> wm_blocks m = [].
Proof.
  intros E Hpi Hp m Hin Hr. pose proof (psim_step_req _ _ _ _ _ _ _ _ E m Hin) as Hreq. rewrite Hr in Hreq. clear Hr.
  destruct a as [[r0|r0|r0|r0]|r0|r0]; cbn [pact_req] in Hreq; subst r0; cbn [psim_step] in E;
    try (inversion E; subst; contradiction).
  - destruct (sim_step s sts (SStart r)) as [[s1 sts1] ms1] eqn:Es. inversion E; subst. cbn [sim_step] in Es. unfold sim_start in Es.
    destruct (rst_find r sts) as [x|]; [destruct (rs_started x)|]; inversion Es; subst; contradiction.
  - rewrite Hpi in E. destruct (rst_find r sts) as [x|]; [|inversion E; subst; contradiction].
    rewrite Hp in E. cbn [orb] in E. inversion E; subst. contradiction.
  - rewrite Hpi, Hp in E. inversion E; subst. contradiction.
  - rewrite Hpi in E. destruct (rst_find r sts) as [x|]; [|inversion E; subst; contradiction]. rewrite Hp in E.
    destruct (pi_finpending pi); [|inversion E; subst; contradiction].
    destruct (lstep s (LFinish r)) as [[s1 out] ok1]. inversion E; subst.
    destruct out; cbn in Hin; try contradiction. destruct Hin as [<-|[]]. reflexivity.
Qed.

(* the same along a whole schedule: every message emitted for r by an action taken while r is paused *)
Fixpoint paused_quiet (r : req) (s : plt) (sts : list rst) (pis : list (req * pinf)) (sched : list pact) : bool :=
  match sched with
  | [] => true
  | a :: rest =>
      let '(s', sts', pis', ms) := psim_step s sts pis a in
      (match aget r pis with
       | Some pi => negb (pi_paused pi) || forallb (fun m => negb (N.eqb (wm_req m) r) || negb (has_block m)) ms
       | None => true
       end) && paused_quiet r s' sts' pis' rest
  end.
Theorem c06_responder_quiet r : forall sched s sts pis, paused_quiet r s sts pis sched = true.
Proof.
  induction sched as [|a rest IH]; intros s sts pis; [reflexivity|]. cbn [paused_quiet].
  destruct (psim_step s sts pis a) as [[[s' sts'] pis'] ms] eqn:E. rewrite IH, andb_true_r.
  destruct (aget r pis) as [pi|] eqn:Hpi; [|reflexivity]. destruct (pi_paused pi) eqn:Hp; [|reflexivity]. cbn [negb orb].
  apply forallb_forall. intros m Hin. destruct (N.eqb_spec (wm_req m) r) as [Hr|]; [|reflexivity]. cbn [negb orb].
  unfold has_block. now rewrite (paused_no_blocks _ _ _ _ _ _ _ _ r pi E Hpi Hp m Hin Hr).
Qed.

(* ---------- (2) a response alone on the peer: the stream does not depend on pauses ---------- *)
Fixpoint run_ops (fs : bool -> N) (s : plt) (ops : list lop) : list wmsg :=
  match ops with
  | [] => []
  | o :: r => let '(s', out, _) := lstep s o in msg_of fs o out ++ run_ops fs s' r
  end.
Lemma run_ops_app fs : forall a s b, run_ops fs s (a ++ b) = run_ops fs s a ++ run_ops fs (lsteps s a) b.
Proof.
  induction a as [|o a IH]; intros s b; [reflexivity|]. cbn [app run_ops lsteps].
  destruct (lstep s o) as [[s' out] ok]. cbn [fst]. now rewrite IH, app_assoc.
Qed.
Lemma run_ops_ext fs q : forall s, run_ops fs s (ext_ops q) = [].
Proof.
  unfold ext_ops. intro s.
  destruct (rq_dedup q), (rq_ignore q), (rq_skip q); cbn [app run_ops];
    repeat match goal with |- context [lstep ?s0 ?o] => destruct (lstep s0 o) as [[? ?] ?] end; reflexivity.
Qed.

Fixpoint prun (s : plt) (sts : list rst) (pis : list (req * pinf)) (sched : list pact)
  : plt * list rst * list (req * pinf) * list wmsg :=
  match sched with
  | [] => (s, sts, pis, [])
  | a :: r => let '(s', sts', pis', ms) := psim_step s sts pis a in
              let '(s2, sts2, pis2, ms2) := prun s' sts' pis' r in (s2, sts2, pis2, ms ++ ms2)
  end.
Lemma prun_flat : forall sched s sts pis, flat (psim s sts pis sched) = snd (prun s sts pis sched).
Proof.
  induction sched as [|a r IH]; intros s sts pis; [reflexivity|]. cbn [psim prun].
  destruct (psim_step s sts pis a) as [[[s' sts'] pis'] ms]. specialize (IH s' sts' pis').
  destruct (prun s' sts' pis' r) as [[[s2 sts2] pis2] ms2]. unfold flat in *. cbn [flat_map snd] in *. now rewrite IH.
Qed.

Section Alone.
  Variable r : req.
  Definition recops (steps : list (option (cid * bool))) : list lop :=
    flat_map (fun st => match st with Some (c, h) => [LRecord r c h] | None => [] end) steps.
  Definition fin_done (x : rst) (pi : pinf) : bool :=
    rs_started x && (match rs_steps x with [] => true | _ => false end) && negb (pi_finpending pi).
  Definition remaining (x : rst) (pi : pinf) : list lop :=
    (if rs_started x then [] else ext_ops (rs_q x)) ++ recops (rs_steps x) ++ (if fin_done x pi then [] else [LFinish r]).
  Definition valid (x : rst) (pi : pinf) : Prop :=
    rq_id (rs_q x) = r /\ (rs_started x = false -> rs_steps x <> [] /\ pi_finpending pi = false /\ pi_paused pi = false) /\
    (pi_finpending pi = true -> rs_steps x = [] /\ rs_started x = true) /\ (forall b, rs_fs x b <> st_paused).

  Lemma norm_rec fs c h out : map norm_status (map (set_status st_paused) (msg_of fs (LRecord r c h) out)) = msg_of fs (LRecord r c h) out.
  Proof. destruct out; reflexivity. Qed.
  Lemma norm_rec' fs c h out : map norm_status (msg_of fs (LRecord r c h) out) = msg_of fs (LRecord r c h) out.
  Proof. destruct out; reflexivity. Qed.
  Lemma norm_fin fs out : (forall b, fs b <> st_paused) -> map norm_status (msg_of fs (LFinish r) out) = msg_of fs (LFinish r) out.
  Proof.
    intro H. destruct out; try reflexivity. cbn. unfold norm_status. cbn [wm_status fin_msg].
    destruct (N.eqb_spec (fs all) st_paused) as [E|_]; [now apply H in E | reflexivity].
  Qed.

  (* one action: what it emits plus what is still to come is what was still to come *)
  Lemma alone_step s x pi a :
    valid x pi ->
    exists s' x' pi' ms, psim_step s [x] [(r, pi)] a = (s', [x'], [(r, pi')], ms) /\ valid x' pi' /\ rs_fs x' = rs_fs x /\
      map norm_status ms ++ run_ops (rs_fs x) s' (remaining x' pi') = run_ops (rs_fs x) s (remaining x pi).
  Proof.
    intros (Hid & Hns & Hfp & Hfs).
    assert (Hsame : exists s' x' pi' ms, (s, [x], [(r, pi)], @nil wmsg) = (s', [x'], [(r, pi')], ms) /\ valid x' pi' /\ rs_fs x' = rs_fs x /\
              map norm_status ms ++ run_ops (rs_fs x) s' (remaining x' pi') = run_ops (rs_fs x) s (remaining x pi)).
    { exists s, x, pi, []. split; [reflexivity|]. split; [unfold valid; auto|]. split; reflexivity. }
    assert (Hfind : rst_find r [x] = Some x) by (cbn; now rewrite Hid, N.eqb_refl).
    assert (Hget : aget r [(r, pi)] = Some pi) by (cbn; now rewrite N.eqb_refl).
    assert (Hput : forall x', rq_id (rs_q x') = r -> rst_put x' [x] = [x']) by (intros x' Hx'; cbn; now rewrite Hid, Hx', N.eqb_refl).
    assert (Haput : forall pi', aput r pi' [(r, pi)] = [(r, pi')]) by (intro pi'; cbn; now rewrite N.eqb_refl).
    destruct a as [[r0|r0|r0|r0]|r0|r0]; cbn [psim_step]; try exact Hsame.
    - (* start *)
      cbn [sim_step]. unfold sim_start. destruct (N.eqb_spec r0 r) as [->|Hn].
      + rewrite Hfind. destruct (rs_started x) eqn:Est; [exact Hsame|].
        destruct (Hns eq_refl) as (Hne & Hfp0 & Hp0).
        set (x' := {| rs_q := rs_q x; rs_started := true; rs_steps := rs_steps x; rs_fs := rs_fs x |}).
        rewrite (Hput x' Hid).
        eexists. exists x', pi, []. split; [reflexivity|]. split; [|split; [reflexivity|]].
        * unfold valid, x'. cbn [rs_q rs_started rs_steps rs_fs]. split; [exact Hid|]. split; [discriminate|]. split; [|exact Hfs].
          intro Hf. destruct (Hfp Hf) as [_ Hs]. congruence.
        * unfold remaining, fin_done, x'. cbn [rs_started rs_steps rs_q app andb]. rewrite Est. cbn [andb].
          rewrite (run_ops_app (rs_fs x) (ext_ops (rs_q x)) s), run_ops_ext. destruct (rs_steps x); [congruence | reflexivity].
      + assert (Hnf : rst_find r0 [x] = None) by (cbn; rewrite Hid; destruct (N.eqb_spec r r0); [congruence | reflexivity]).
        rewrite Hnf. exact Hsame.
    - (* step *)
      destruct (N.eqb_spec r0 r) as [->|Hn].
      2:{ assert (Hng : aget r0 [(r, pi)] = None) by (cbn; destruct (N.eqb_spec r0 r); [congruence | reflexivity]). rewrite Hng. exact Hsame. }
      rewrite Hget, Hfind. destruct (pi_paused pi || negb (rs_started x)) eqn:Eg; [exact Hsame|].
      apply orb_false_iff in Eg as [Ep Est]. apply negb_false_iff in Est.
      destruct (rs_steps x) as [|[[c h]|] rest] eqn:Esteps; [exact Hsame| |].
      + destruct (lstep s (LRecord r c h)) as [[s1 out] ok1] eqn:El.
        set (x' := {| rs_q := rs_q x; rs_started := true; rs_steps := rest; rs_fs := rs_fs x |}).
        rewrite (Hput x' Hid), !Haput.
        assert (Hnfp : pi_finpending pi = false) by (destruct (pi_finpending pi) eqn:Ef; [destruct (Hfp eq_refl) as [Hs _]; congruence | reflexivity]).
        assert (Hrem : run_ops (rs_fs x) s (remaining x pi) =
                       msg_of (rs_fs x) (LRecord r c h) out ++ run_ops (rs_fs x) s1 (recops rest ++ [LFinish r])).
        { unfold remaining, fin_done. rewrite Est, Esteps. cbn [andb app recops flat_map run_ops]. now rewrite El. }
        destruct (pi_signal pi || _) eqn:Epause.
        * eexists. exists x'. eexists. eexists. split; [reflexivity|]. split; [|split; [reflexivity|]].
          -- unfold valid, x'. cbn. repeat split; auto; try discriminate. destruct rest; [reflexivity | discriminate].
          -- rewrite norm_rec, Hrem. f_equal. unfold remaining, fin_done, x'. cbn [rs_started rs_steps pi_finpending app andb].
             destruct rest; reflexivity.
        * destruct rest as [|st2 rest'].
          -- destruct (lstep s1 (LFinish r)) as [[s2 out2] ok2] eqn:El2.
             eexists. exists x'. eexists. eexists. split; [reflexivity|]. split; [|split; [reflexivity|]].
             ++ unfold valid, x'. cbn. repeat split; auto; discriminate.
             ++ rewrite map_app, norm_rec', (norm_fin _ _ Hfs), Hrem. unfold remaining, fin_done, x'.
                cbn [rs_started rs_steps pi_finpending app andb negb recops flat_map run_ops]. rewrite El2, !app_nil_r. reflexivity.
          -- eexists. exists x'. eexists. eexists. split; [reflexivity|]. split; [|split; [reflexivity|]].
             ++ unfold valid, x'. cbn. repeat split; auto; discriminate.
             ++ rewrite app_nil_r, norm_rec', Hrem. unfold remaining, fin_done, x'. cbn [rs_started rs_steps app andb]. reflexivity.
      + (* hard load error *)
        cbn [sim_step]. rewrite Hfind, Est, Esteps. cbn [negb].
        set (x' := {| rs_q := rs_q x; rs_started := true; rs_steps := rest; rs_fs := rs_fs x |}).
        assert (Hnfp : pi_finpending pi = false) by (destruct (pi_finpending pi) eqn:Ef; [destruct (Hfp eq_refl) as [Hs _]; congruence | reflexivity]).
        destruct rest as [|st2 rest'].
        * destruct (lstep s (LFinish r)) as [[s2 out2] ok2] eqn:El2. rewrite (Hput x' Hid).
          eexists. exists x', pi. eexists. split; [reflexivity|]. split; [|split; [reflexivity|]].
          -- unfold valid, x'. cbn [rs_q rs_started rs_steps rs_fs]. split; [exact Hid|]. split; [discriminate|]. split; [|exact Hfs]. intro Hf; congruence.
          -- cbn [app]. rewrite (norm_fin _ _ Hfs). unfold remaining, fin_done, x'. rewrite Est, Esteps, Hnfp.
             cbn [rs_started rs_steps app andb negb recops flat_map run_ops]. now rewrite El2, !app_nil_r.
        * rewrite (Hput x' Hid). eexists. exists x', pi, []. split; [reflexivity|]. split; [|split; [reflexivity|]].
          -- unfold valid, x'. cbn [rs_q rs_started rs_steps rs_fs]. split; [exact Hid|]. split; [discriminate|]. split; [|exact Hfs]. intro Hf; congruence.
          -- unfold remaining, fin_done, x'. rewrite Est, Esteps. cbn [rs_started rs_steps app andb recops flat_map]. reflexivity.
    - (* pause through the API *)
      destruct (N.eqb_spec r0 r) as [->|Hn].
      2:{ assert (Hng : aget r0 [(r, pi)] = None) by (cbn; destruct (N.eqb_spec r0 r); [congruence | reflexivity]). rewrite Hng. exact Hsame. }
      rewrite Hget. destruct (pi_paused pi) eqn:Ep; [exact Hsame|]. rewrite Haput.
      exists s, x. eexists. exists []. split; [reflexivity|]. split; [|split; [reflexivity|]].
      + unfold valid. cbn [pi_finpending pi_paused]. split; [exact Hid|]. split; [intro Hs; destruct (Hns Hs) as (A & B & C); auto|]. split; [exact Hfp | exact Hfs].
      + reflexivity.
    - (* unpause *)
      destruct (N.eqb_spec r0 r) as [->|Hn].
      2:{ assert (Hng : aget r0 [(r, pi)] = None) by (cbn; destruct (N.eqb_spec r0 r); [congruence | reflexivity]). rewrite Hng. exact Hsame. }
      rewrite Hget, Hfind. destruct (pi_paused pi) eqn:Ep; [|exact Hsame].
      assert (Hst : rs_started x = true) by (destruct (rs_started x) eqn:Es; [reflexivity | destruct (Hns eq_refl) as (_ & _ & C); congruence]).
      destruct (pi_finpending pi) eqn:Ef.
      + destruct (Hfp eq_refl) as [Hsteps _]. destruct (lstep s (LFinish r)) as [[s1 out] ok1] eqn:El. rewrite Haput.
        eexists. exists x. eexists. eexists. split; [reflexivity|]. split; [|split; [reflexivity|]].
        * unfold valid. cbn. repeat split; auto; try discriminate. intro Hs. congruence.
        * rewrite (norm_fin _ _ Hfs). unfold remaining, fin_done. rewrite Hst, Hsteps, Ef. cbn [pi_finpending app andb negb recops flat_map run_ops].
          now rewrite El, !app_nil_r.
      + rewrite Haput. exists s, x. eexists. exists []. split; [reflexivity|]. split; [|split; [reflexivity|]].
        * unfold valid. cbn. repeat split; auto; try discriminate. intro Hs. congruence.
        * unfold remaining, fin_done. rewrite Ef. reflexivity.
  Qed.

  Lemma alone_run : forall sched s x pi, valid x pi ->
    exists s' x' pi' out, prun s [x] [(r, pi)] sched = (s', [x'], [(r, pi')], out) /\ valid x' pi' /\ rs_fs x' = rs_fs x /\
      map norm_status out ++ run_ops (rs_fs x) s' (remaining x' pi') = run_ops (rs_fs x) s (remaining x pi).
  Proof.
    induction sched as [|a rest IH]; intros s x pi Hv.
    - exists s, x, pi, []. split; [reflexivity|]. split; [exact Hv|]. split; reflexivity.
    - cbn [prun]. destruct (alone_step s x pi a Hv) as (s1 & x1 & pi1 & ms & E1 & Hv1 & Hf1 & Eq1). rewrite E1.
      destruct (IH s1 x1 pi1 Hv1) as (s2 & x2 & pi2 & out & E2 & Hv2 & Hf2 & Eq2). rewrite E2.
      exists s2, x2, pi2, (ms ++ out). split; [reflexivity|]. split; [exact Hv2|]. split; [congruence|].
      rewrite map_app, <- app_assoc, <- Eq1. f_equal. rewrite <- Hf1. exact Eq2.
  Qed.
End Alone.

(* the stream of the uninterrupted response *)
Definition full_stream (x : rst) : list wmsg :=
  run_ops (rs_fs x) plt_new (remaining (rq_id (rs_q x)) x (pinf_init [])).

Lemma rst_init_valid fx R q hook : valid (rq_id q) (rst_init fx R q) (pinf_init hook).
Proof.
  unfold rst_init, rrun. destruct (run_tree (load_ask fx R) (rq_plan q) []) as [[recs evs] ok] eqn:Er.
  unfold valid. cbn [rs_q rs_started rs_steps rs_fs pinf_init pi_finpending pi_paused].
  split; [reflexivity|]. split; [|split; [discriminate|]].
  - intros _. split; [|auto]. destruct (rq_plan q) as [p c body]. rewrite run_tree_node in Er. unfold load_ask at 1 in Er.
    destruct (R c); [destruct (run_items _ body _) as [[? ?] ?] | destruct (run_items _ body _) as [[? ?] ?] | | |];
      inversion Er; subst; cbn; discriminate.
  - intro b. unfold final_status, st_paused, st_failed_unknown, st_not_found, st_full, st_partial.
    destruct (negb ok); [discriminate|]. destruct (root_skipped evs); [discriminate|]. destruct b; discriminate.
Qed.

(* For a response alone on the peer and EVERY schedule of link loads, API pauses, hook pauses and unpauses:
   what went out (the RequestPaused status read as "in progress") followed by what the uninterrupted response
   would still send from the tracker state reached = the stream of the uninterrupted response; in particular
   it is a prefix of that stream, and all of it once the response has finished. *)
Theorem c06_responder_stream fx R q hook sched :
  let x := rst_init fx R q in
  exists s' x' pi' out,
    prun plt_new [x] [(rq_id q, pinf_init hook)] sched = (s', [x'], [(rq_id q, pi')], out) /\
    flat (psim plt_new [x] [(rq_id q, pinf_init hook)] sched) = out /\
    map norm_status out ++ run_ops (rs_fs x) s' (remaining (rq_id q) x' pi') = full_stream x /\
    (fin_done x' pi' = true -> rs_started x' = true -> map norm_status out = full_stream x).
Proof.
  intro x. destruct (alone_run (rq_id q) sched plt_new x (pinf_init hook) (rst_init_valid fx R q hook)) as (s' & x' & pi' & out & E & Hv & Hf & Eq).
  exists s', x', pi', out. split; [exact E|]. split; [rewrite prun_flat, E; reflexivity|].
  assert (Hx : rq_id (rs_q x) = rq_id q) by (unfold x, rst_init; destruct (rrun fx R (rq_plan q)) as [[? ?] ?]; reflexivity).
  assert (Efull : run_ops (rs_fs x) plt_new (remaining (rq_id q) x (pinf_init hook)) = full_stream x)
    by (unfold full_stream; rewrite Hx; reflexivity).
  split; [rewrite Eq; exact Efull|].
  intros Hd Hs. rewrite <- Efull, <- Eq. unfold remaining at 1. rewrite Hd, Hs.
  unfold fin_done in Hd. apply andb_true_iff in Hd as [Hd _]. apply andb_true_iff in Hd as [_ Hd].
  destruct (rs_steps x'); [|discriminate]. cbn [app recops flat_map run_ops]. now rewrite app_nil_r.
Qed.

(* ---------- the uninterrupted stream is the wire output of the C03 model ---------- *)
From GS Require Import ResponderProofs.

Definition somes {A} (l : list (option A)) : list A := flat_map (fun o => match o with Some a => [a] | None => [] end) l.

Lemma run_steps fx R :
  (forall t recs0, let '(recs, evs, ok) := run_tree (load_ask fx R) t recs0 in recs = recs0 ++ somes (steps_of fx R evs)) /\
  (forall l recs0, let '(recs, evs, ok) := run_items (load_ask fx R) l recs0 in recs = recs0 ++ somes (steps_of fx R evs)).
Proof.
  apply (ltree_items_ind
    (fun t => forall recs0, let '(recs, evs, ok) := run_tree (load_ask fx R) t recs0 in recs = recs0 ++ somes (steps_of fx R evs))
    (fun l => forall recs0, let '(recs, evs, ok) := run_items (load_ask fx R) l recs0 in recs = recs0 ++ somes (steps_of fx R evs))).
  - intros p c body IH recs0. rewrite run_tree_node. unfold load_ask at 1.
    destruct (R c) eqn:ER.
    + specialize (IH (recs0 ++ [(c, true)])). destruct (run_items (load_ask fx R) body _) as [[recs evs] ok].
      cbn [steps_of]. rewrite ER. cbn [somes flat_map app]. rewrite IH, <- app_assoc. reflexivity.
    + specialize (IH (recs0 ++ [(c, fx)])). destruct (run_items (load_ask fx R) body _) as [[recs evs] ok].
      cbn [steps_of]. rewrite ER. cbn [somes flat_map app]. rewrite IH, <- app_assoc. reflexivity.
    + cbn [steps_of]. rewrite ER. cbn [somes flat_map app]. reflexivity.
    + cbn [steps_of]. rewrite ER. cbn [somes flat_map app]. now rewrite app_nil_r.
    + cbn [steps_of]. rewrite ER. cbn [somes flat_map app]. reflexivity.
  - intro recs0. cbn. now rewrite app_nil_r.
  - intros v r IH recs0. rewrite run_items_visit. specialize (IH recs0). destruct (run_items (load_ask fx R) r recs0) as [[recs evs] ok]. exact IH.
  - intros t IHt r IHr recs0. rewrite run_items_child. specialize (IHt recs0).
    destruct (run_tree (load_ask fx R) t recs0) as [[recs1 e1] ok1]. destruct ok1.
    + specialize (IHr recs1). destruct (run_items (load_ask fx R) r recs1) as [[recs2 e2] ok2].
      assert (Es : forall a b, steps_of fx R (a ++ b) = steps_of fx R a ++ steps_of fx R b).
      { induction a as [|[p c x|v] a IHa]; intro b; cbn [app steps_of]; [reflexivity | now rewrite IHa | apply IHa]. }
      rewrite Es. unfold somes in *. rewrite flat_map_app, IHr, IHt, <- app_assoc. reflexivity.
    + exact IHt.
Qed.

Lemma recops_somes r steps : recops r steps = rec_ops r (somes steps).
Proof.
  induction steps as [|[[c h]|] steps IH]; cbn [recops flat_map somes app]; [reflexivity| |exact IH].
  unfold rec_ops in *. cbn [map fst snd app]. f_equal. exact IH.
Qed.

Lemma wire_gen_own fs r : forall ops s, (forall o, In o ops -> req_of o = r) -> wire_gen fs r s ops = run_ops fs s ops.
Proof.
  induction ops as [|o ops IH]; intros s H; [reflexivity|]. destruct (lstep s o) as [[s' out] ok] eqn:E.
  rewrite (wire_gen_cons _ _ _ _ _ _ _ _ E). cbn [run_ops]. rewrite E, (H o (or_introl eq_refl)), N.eqb_refl.
  f_equal. apply IH. intros o' Ho'. apply H. now right.
Qed.

Theorem full_stream_wire fx R q : full_stream (rst_init fx R q) = wire fx R q (own_ops fx R q).
Proof.
  rewrite wire_is_gen. unfold full_stream, own_ops, rst_init, rrun.
  pose proof (proj1 (run_steps fx R) (rq_plan q) []) as Hs.
  destruct (run_tree (load_ask fx R) (rq_plan q) []) as [[recs evs] ok]. cbn [app] in Hs. cbn [fst snd rs_q rs_fs rs_steps].
  unfold remaining, fin_done. cbn [rs_started rs_steps rs_q pinf_init pi_finpending andb].
  rewrite recops_somes, <- Hs. symmetry. apply wire_gen_own.
  intros o Ho. apply in_app_iff in Ho as [Ho|Ho]; [|apply in_app_iff in Ho as [Ho|[<-|[]]]; [|reflexivity]].
  - unfold ext_ops in Ho. destruct (rq_dedup q), (rq_ignore q), (rq_skip q); cbn in Ho; intuition; subst; reflexivity.
  - unfold rec_ops in Ho. apply in_map_iff in Ho as (x0 & <- & _). reflexivity.
Qed.
