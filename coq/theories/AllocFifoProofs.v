(* AllocFifoProofs.v — the executable monitor of C14 ([monitor_C14], Alloc.v) accepts every history
   of the allocator model, for all limits and all scripts; and what an accepted history guarantees
   about per-peer FIFO order.  Extends AllocProofs.v (nothing there is changed). *)
From Coq Require Import List NArith Bool Lia ZifyBool ZifyN ZifyNat.
From GS Require Import Base Alloc AllocProofs.
Import ListNotations.
Open Scope N_scope.

(* ---------- waiting room (association list) facts ---------- *)
Lemma wq_get_set q p v w : wq_get q (wq_set p v w) = if N.eqb q p then v else wq_get q w.
Proof.
  induction w as [|[r x] w IH]; simpl.
  - destruct (N.eqb_spec q p); reflexivity.
  - destruct (N.eqb_spec p r); simpl.
    + subst. destruct (N.eqb_spec q r); reflexivity.
    + destruct (N.eqb_spec q r); simpl.
      * subst. destruct (N.eqb_spec r p); [congruence | reflexivity].
      * exact IH.
Qed.

Lemma wq_keys_set p v w :
  map fst (wq_set p v w) = if existsb (N.eqb p) (map fst w) then map fst w else map fst w ++ [p].
Proof.
  induction w as [|[q x] w IH]; simpl; [reflexivity|].
  destruct (N.eqb_spec p q); simpl; [reflexivity|].
  rewrite IH. destruct (existsb (N.eqb p) (map fst w)); reflexivity.
Qed.

Lemma wq_nodup_set p v w : NoDup (map fst w) -> NoDup (map fst (wq_set p v w)).
Proof.
  intro H. rewrite wq_keys_set. destruct (existsb (N.eqb p) (map fst w)) eqn:E; [exact H|].
  assert (Hni : ~ In p (map fst w)) by (intro Hin; apply existsb_eqb_in in Hin; congruence).
  clear E. induction (map fst w) as [|k ks IH]; simpl.
  - constructor; [intros [] | constructor].
  - inversion H; subst. constructor.
    + rewrite in_app_iff. simpl. intros [?|[?|[]]]; [contradiction|]. apply Hni. now left.
    + apply IH; [assumption|]. intro; apply Hni; now right.
Qed.

Lemma wq_in_get p v w : NoDup (map fst w) -> In (p, v) w -> wq_get p w = v.
Proof.
  induction w as [|[q x] w IH]; simpl; intros Hn Hin; [contradiction|].
  inversion Hn as [|? ? Hq Hl]; subst. destruct Hin as [E|Hin].
  - inversion E; subst. now rewrite N.eqb_refl.
  - destruct (N.eqb_spec p q).
    + subst. exfalso. apply Hq. change q with (fst (q, v)). now apply in_map.
    + now apply IH.
Qed.

Lemma wq_get_in p w : wq_get p w <> [] -> In (p, wq_get p w) w.
Proof.
  induction w as [|[q x] w IH]; simpl; intro H; [congruence|].
  destruct (N.eqb_spec p q); [subst; now left | right; now apply IH].
Qed.

(* extensional equality of waiting rooms and ledgers *)
Definition weq (w w' : waitq) : Prop := forall p, wq_get p w = wq_get p w'.
Definition leq (l l' : ledger) : Prop := forall p, led_get p l = led_get p l'.

(* ---------- one outcome applied to the waiting room ---------- *)
Definition is_grant (o : out) : bool := match o with Granted _ => true | Failed _ => false end.

Definition fail_ok (f : option peer) (o : out) (p : peer) : bool :=
  match o with
  | Granted _ => true
  | Failed _ => match f with Some fp => N.eqb p fp | None => false end
  end.

Definition upd (o : out) (p : peer) (a : N) (l : ledger) : ledger :=
  if is_grant o then led_set p (led_get p l + a) l else l.

Definition app1 (tk : tkt_info) (f : option peer) (o : out) (w : waitq) (l : ledger)
  : option (waitq * ledger) :=
  match tkt_lookup (out_tkt o) tk with
  | None => None
  | Some (p, a) =>
      if fail_ok f o p then
        match wq_get p w with
        | (t', _) :: q' => if N.eqb (out_tkt o) t' then Some (wq_set p q' w, upd o p a l) else None
        | [] => None
        end
      else None
  end.

Lemma apply_cons tk f o r w l :
  apply_outs14 tk (o :: r) w l f =
  match app1 tk f o w l with Some (w1, l1) => apply_outs14 tk r w1 l1 f | None => None end.
Proof.
  unfold app1, upd. destruct o as [t|t]; simpl.
  - destruct (tkt_lookup t tk) as [[p a]|]; [|reflexivity].
    destruct (wq_get p w) as [|[t' a'] q']; [reflexivity|].
    destruct (N.eqb t t'); reflexivity.
  - destruct (tkt_lookup t tk) as [[p a]|]; [|reflexivity].
    destruct f as [fp|]; [|reflexivity].
    destruct (N.eqb p fp); [|reflexivity].
    destruct (wq_get p w) as [|[t' a'] q']; [reflexivity|].
    destruct (N.eqb t t'); reflexivity.
Qed.

Lemma apply_nil tk f w l : apply_outs14 tk [] w l f = Some (w, l).
Proof. reflexivity. Qed.

Lemma app1_some tk f o w l w' l' : app1 tk f o w l = Some (w', l') ->
  exists p a a' q', tkt_lookup (out_tkt o) tk = Some (p, a) /\ fail_ok f o p = true /\
    wq_get p w = (out_tkt o, a') :: q' /\ w' = wq_set p q' w /\ l' = upd o p a l.
Proof.
  unfold app1. destruct (tkt_lookup (out_tkt o) tk) as [[p a]|]; [|discriminate].
  destruct (fail_ok f o p) eqn:Ef; [|discriminate].
  destruct (wq_get p w) as [|[t' a'] q'] eqn:Ew; [discriminate|].
  destruct (N.eqb_spec (out_tkt o) t'); [|discriminate].
  intro H. inversion H; subst. exists p, a, a', q'. auto.
Qed.

Lemma app1_intro tk f o w l p a a' q' :
  tkt_lookup (out_tkt o) tk = Some (p, a) -> fail_ok f o p = true ->
  wq_get p w = (out_tkt o, a') :: q' ->
  app1 tk f o w l = Some (wq_set p q' w, upd o p a l).
Proof.
  intros Ht Ef Ew. unfold app1. rewrite Ht, Ef, Ew, N.eqb_refl. reflexivity.
Qed.

Lemma led_get_upd q o p a l :
  led_get q (upd o p a l) = if is_grant o && N.eqb q p then led_get p l + a else led_get q l.
Proof.
  unfold upd. destruct (is_grant o); simpl; [|reflexivity]. apply led_get_set.
Qed.

Lemma weq_set p v w w' : weq w w' -> weq (wq_set p v w) (wq_set p v w').
Proof. intros H q. rewrite !wq_get_set. destruct (N.eqb q p); [reflexivity | apply H]. Qed.

Lemma leq_upd o p a l l' : leq l l' -> leq (upd o p a l) (upd o p a l').
Proof.
  intros H q. rewrite !led_get_upd. destruct (is_grant o && N.eqb q p); [now rewrite H | apply H].
Qed.

Lemma app1_cong tk f o w l w2 l2 w1 l1 : weq w w2 -> leq l l2 ->
  app1 tk f o w l = Some (w1, l1) ->
  exists w1' l1', app1 tk f o w2 l2 = Some (w1', l1') /\ weq w1 w1' /\ leq l1 l1'.
Proof.
  intros Hw Hl H. apply app1_some in H as (p & a & a' & q' & Ht & Ef & Ew & -> & ->).
  exists (wq_set p q' w2), (upd o p a l2). split.
  - eapply app1_intro; eauto. rewrite <- Hw. exact Ew.
  - split; [now apply weq_set | now apply leq_upd].
Qed.

Lemma apply_cong tk f : forall outs w l w2 l2 w' l', weq w w2 -> leq l l2 ->
  apply_outs14 tk outs w l f = Some (w', l') ->
  exists w'' l'', apply_outs14 tk outs w2 l2 f = Some (w'', l'') /\ weq w' w'' /\ leq l' l''.
Proof.
  induction outs as [|o r IH]; intros w l w2 l2 w' l' Hw Hl H.
  - rewrite apply_nil in H. inversion H; subst. exists w2, l2. rewrite apply_nil. auto.
  - rewrite apply_cons in H. destruct (app1 tk f o w l) as [[w1 l1]|] eqn:E1; [|discriminate].
    destruct (app1_cong _ _ _ _ _ _ _ _ _ Hw Hl E1) as (w1' & l1' & E1' & Hw1 & Hl1).
    rewrite apply_cons, E1'. eapply IH; eauto.
Qed.

Lemma apply_app tk f : forall a b w l,
  apply_outs14 tk (a ++ b) w l f =
  match apply_outs14 tk a w l f with Some (w1, l1) => apply_outs14 tk b w1 l1 f | None => None end.
Proof.
  induction a as [|o a IH]; intros b w l; [reflexivity|].
  rewrite <- app_comm_cons, !apply_cons. destruct (app1 tk f o w l) as [[w1 l1]|]; [apply IH | reflexivity].
Qed.

(* the peer an outcome belongs to, according to the ticket table *)
Definition opeer (tk : tkt_info) (o : out) : option peer :=
  match tkt_lookup (out_tkt o) tk with Some (p, _) => Some p | None => None end.

(* outcomes of different peers commute *)
Lemma app1_swap tk f o1 o2 w l w1 l1 w2 l2 :
  app1 tk f o1 w l = Some (w1, l1) -> app1 tk f o2 w1 l1 = Some (w2, l2) ->
  opeer tk o1 <> opeer tk o2 ->
  exists wa la wb lb, app1 tk f o2 w l = Some (wa, la) /\ app1 tk f o1 wa la = Some (wb, lb) /\
                      weq wb w2 /\ leq lb l2.
Proof.
  intros H1 H2 Hne.
  apply app1_some in H1 as (p1 & a1 & a1' & q1 & Ht1 & Ef1 & Ew1 & -> & ->).
  apply app1_some in H2 as (p2 & a2 & a2' & q2 & Ht2 & Ef2 & Ew2 & -> & ->).
  unfold opeer in Hne. rewrite Ht1, Ht2 in Hne.
  assert (Hn : p1 <> p2) by congruence.
  rewrite wq_get_set in Ew2. destruct (N.eqb_spec p2 p1) as [E|_]; [congruence|].
  exists (wq_set p2 q2 w), (upd o2 p2 a2 l),
         (wq_set p1 q1 (wq_set p2 q2 w)), (upd o1 p1 a1 (upd o2 p2 a2 l)).
  split; [eapply app1_intro; eauto|]. split.
  - eapply app1_intro; eauto. rewrite wq_get_set. destruct (N.eqb_spec p1 p2); [congruence | exact Ew1].
  - split.
    + intro q. rewrite !wq_get_set.
      destruct (N.eqb_spec q p1), (N.eqb_spec q p2); try reflexivity; congruence.
    + intro q. rewrite !led_get_upd.
      destruct (is_grant o1), (is_grant o2); simpl; rewrite ?led_get_upd;
        destruct (N.eqb_spec q p1), (N.eqb_spec q p2); subst; simpl;
        repeat match goal with |- context [N.eqb ?x ?y] => destruct (N.eqb_spec x y) end;
        simpl; try congruence; try reflexivity.
Qed.

(* per-peer ticket order of an emission sequence: a later outcome of the same peer has a larger ticket *)
Fixpoint POrd (tk : tkt_info) (l : list out) : Prop :=
  match l with
  | [] => True
  | o :: r => (forall x, In x r -> opeer tk x = opeer tk o -> out_tkt o < out_tkt x) /\ POrd tk r
  end.

Lemma in_insert_out x o l : In x (insert_out o l) <-> x = o \/ In x l.
Proof.
  induction l as [|y l IH]; simpl; [intuition congruence|].
  destruct (out_tkt o <=? out_tkt y); simpl; [intuition congruence|].
  rewrite IH. intuition congruence.
Qed.

Lemma in_sort_outs x l : In x (sort_outs l) <-> In x l.
Proof.
  unfold sort_outs. induction l as [|y l IH]; simpl; [tauto|].
  rewrite in_insert_out, IH. intuition congruence.
Qed.

Lemma apply_insert tk f o : forall r w l w' l',
  (forall x, In x r -> opeer tk x = opeer tk o -> out_tkt o < out_tkt x) ->
  apply_outs14 tk (o :: r) w l f = Some (w', l') ->
  exists w'' l'', apply_outs14 tk (insert_out o r) w l f = Some (w'', l'') /\ weq w' w'' /\ leq l' l''.
Proof.
  induction r as [|x r IH]; intros w l w' l' Hord H.
  - simpl insert_out. exists w', l'. split; [exact H|]. split; intro; reflexivity.
  - simpl insert_out. destruct (N.leb_spec (out_tkt o) (out_tkt x)) as [Hle|Hgt].
    + exists w', l'. split; [exact H|]. split; intro; reflexivity.
    + rewrite apply_cons in H. destruct (app1 tk f o w l) as [[w1 l1]|] eqn:E1; [|discriminate].
      rewrite apply_cons in H. destruct (app1 tk f x w1 l1) as [[w2 l2]|] eqn:E2; [|discriminate].
      assert (Hne : opeer tk o <> opeer tk x).
      { intro E. specialize (Hord x (or_introl eq_refl) (eq_sym E)). lia. }
      destruct (app1_swap _ _ _ _ _ _ _ _ _ _ E1 E2 Hne) as (wa & la & wb & lb & Ea & Eb & Hwb & Hlb).
      assert (Hweq : weq w2 wb) by (intro q; symmetry; apply Hwb).
      assert (Hleq : leq l2 lb) by (intro q; symmetry; apply Hlb).
      destruct (apply_cong _ _ _ _ _ _ _ _ _ Hweq Hleq H) as (w3 & l3 & E3 & Hw3 & Hl3).
      assert (E4 : apply_outs14 tk (o :: r) wa la f = Some (w3, l3)) by (rewrite apply_cons, Eb; exact E3).
      destruct (IH wa la w3 l3) as (w4 & l4 & E5 & Hw4 & Hl4).
      { intros y Hy. apply Hord. now right. }
      { exact E4. }
      exists w4, l4. split; [rewrite apply_cons, Ea; exact E5|].
      split; intro q; [rewrite Hw3; apply Hw4 | rewrite Hl3; apply Hl4].
Qed.

(* the harness sorts the outcomes of one call by ticket: if they apply in emission order and the
   emission respects per-peer ticket order, they apply sorted, with the same result *)
Lemma apply_sorted tk f : forall outs w l w' l', POrd tk outs ->
  apply_outs14 tk outs w l f = Some (w', l') ->
  exists w'' l'', apply_outs14 tk (sort_outs outs) w l f = Some (w'', l'') /\ weq w' w'' /\ leq l' l''.
Proof.
  induction outs as [|o r IH]; intros w l w' l' Hord H.
  - exists w', l'. split; [exact H|]. split; intro; reflexivity.
  - destruct Hord as [Ho Hr]. rewrite apply_cons in H.
    destruct (app1 tk f o w l) as [[w1 l1]|] eqn:E1; [|discriminate].
    destruct (IH _ _ _ _ Hr H) as (w2 & l2 & E2 & Hw2 & Hl2).
    assert (E3 : apply_outs14 tk (o :: sort_outs r) w l f = Some (w2, l2))
      by (rewrite apply_cons, E1; exact E2).
    change (sort_outs (o :: r)) with (insert_out o (sort_outs r)).
    destruct (apply_insert tk f o (sort_outs r) w l w2 l2) as (w3 & l3 & E4 & Hw3 & Hl3).
    { intros x Hx. apply Ho. now apply in_sort_outs. }
    { exact E3. }
    exists w3, l3. split; [exact E4|].
    split; intro q; [rewrite Hw2; apply Hw3 | rewrite Hl2; apply Hl3].
Qed.

(* what applying outcomes does to the sum of the ledger and to the key set of the waiting room *)
Lemma apply_sum tk f : forall outs w l w' l',
  apply_outs14 tk outs w l f = Some (w', l') -> led_sum l' = led_sum l + gtot tk outs.
Proof.
  induction outs as [|o r IH]; intros w l w' l' H.
  - rewrite apply_nil in H. inversion H; subst. simpl. lia.
  - rewrite apply_cons in H. destruct (app1 tk f o w l) as [[w1 l1]|] eqn:E1; [|discriminate].
    apply app1_some in E1 as (p & a & a' & q' & Ht & Ef & Ew & -> & ->).
    rewrite (IH _ _ _ _ H). unfold upd. destruct o as [t|t]; simpl in *.
    + rewrite Ht. pose proof (led_sum_set p (led_get p l + a) l). lia.
    + reflexivity.
Qed.

Lemma apply_nodup tk f : forall outs w l w' l', NoDup (map fst w) ->
  apply_outs14 tk outs w l f = Some (w', l') -> NoDup (map fst w').
Proof.
  induction outs as [|o r IH]; intros w l w' l' Hn H.
  - rewrite apply_nil in H. inversion H; subst. exact Hn.
  - rewrite apply_cons in H. destruct (app1 tk f o w l) as [[w1 l1]|] eqn:E1; [|discriminate].
    apply app1_some in E1 as (p & a & a' & q' & Ht & Ef & Ew & -> & ->).
    eapply IH; [|exact H]. now apply wq_nodup_set.
Qed.

(* ---------- queue invariants of the model ---------- *)
Definition qmap (l : list pend) : list (ticket * N) := map (fun x => (p_tkt x, p_amt x)) l.

(* strictly increasing tickets *)
Fixpoint tinc (l : list pend) : Prop :=
  match l with
  | [] => True
  | x :: r => (forall y, In y r -> p_tkt x < p_tkt y) /\ tinc r
  end.

Lemma tinc_app_inv a b : tinc (a ++ b) ->
  tinc b /\ (forall x y, In x a -> In y b -> p_tkt x < p_tkt y).
Proof.
  induction a as [|z a IH]; simpl; intro H; [split; [exact H | intros x y []]|].
  destruct H as [Hz Ha]. destruct (IH Ha) as [Hb Hab]. split; [exact Hb|].
  intros x y [<-|Hx] Hy; [apply Hz; apply in_app_iff; now right | now apply Hab].
Qed.

Lemma tinc_snoc a z : tinc a -> (forall x, In x a -> p_tkt x < p_tkt z) -> tinc (a ++ [z]).
Proof.
  induction a as [|y a IH]; simpl; intros Ha Hz; [split; [intros ? [] | exact I]|].
  destruct Ha as [Hy Ha]. split.
  - intros u Hu. apply in_app_iff in Hu as [Hu|[<-|[]]]; [now apply Hy | apply Hz; now left].
  - apply IH; [exact Ha | intros x Hx; apply Hz; now right].
Qed.

Lemma waiting_in s p x : In x (waiting_of s p) ->
  exists ps, lookup p (peers s) = Some ps /\ In x (ps_pend ps).
Proof.
  unfold waiting_of. destruct (lookup p (peers s)) as [ps|]; [eauto | intros []].
Qed.

Lemma waiting_lookup s p ps : lookup p (peers s) = Some ps -> waiting_of s p = ps_pend ps.
Proof. unfold waiting_of. now intros ->. Qed.

Lemma tkinv_w tk s p x : TkInv tk s -> In x (waiting_of s p) ->
  tkt_lookup (p_tkt x) tk = Some (p, p_amt x).
Proof. intros HT Hx. apply waiting_in in Hx as (ps & Hl & Hx). eapply HT; eauto. Qed.

Record QInv (s : st) : Prop := {
  q_inc : forall p, tinc (waiting_of s p);
  q_idx : forall p x, In x (waiting_of s p) -> p_idx x < next_idx s;
  q_ord : forall p x q y, In x (waiting_of s p) -> In y (waiting_of s q) ->
                          p_idx x <= p_idx y -> p_tkt x <= p_tkt y
}.

(* every queue of [s'] is a suffix of the same peer's queue in [s] *)
Definition Sub (s s' : st) : Prop := forall q, exists pre, waiting_of s q = pre ++ waiting_of s' q.

Lemma sub_refl s : Sub s s.
Proof. intro q. now exists []. Qed.

Lemma sub_trans s1 s2 s3 : Sub s1 s2 -> Sub s2 s3 -> Sub s1 s3.
Proof.
  intros H12 H23 q. destruct (H12 q) as [a Ea], (H23 q) as [b Eb].
  exists (a ++ b). rewrite Ea, Eb. now rewrite app_assoc.
Qed.

Lemma sub_in s s' q x : Sub s s' -> In x (waiting_of s' q) -> In x (waiting_of s q).
Proof. intros H Hx. destruct (H q) as [pre E]. rewrite E. apply in_app_iff. now right. Qed.

Lemma qinv_sub s s' : QInv s -> Sub s s' -> next_idx s' = next_idx s -> QInv s'.
Proof.
  intros [Hi Hx Ho] HS En. constructor.
  - intro p. destruct (HS p) as [pre E]. specialize (Hi p). rewrite E in Hi.
    now apply tinc_app_inv in Hi.
  - intros p x Hin. rewrite En. eapply Hx, sub_in; eauto.
  - intros p x q y Hin Hiny. eapply Ho; eapply sub_in; eauto.
Qed.

(* ---------- simulation: model state vs. the monitor's waiting room and ledger ---------- *)
Definition R (w : waitq) (l : ledger) (s : st) : Prop :=
  (forall p, wq_get p w = qmap (waiting_of s p)) /\ (forall p, led_get p l = alloc_of s p).

Lemma R_ext w l w' l' s : R w l s -> weq w w' -> leq l l' -> R w' l' s.
Proof. intros [A B] Hw Hl. split; intro p; [rewrite <- Hw; apply A | rewrite <- Hl; apply B]. Qed.

Definition Tinc (s : st) : Prop := forall p, tinc (waiting_of s p).

Lemma waiting_with_set s tot p v q :
  waiting_of (with_peers s tot (set p v (peers s))) q = if N.eqb q p then ps_pend v else waiting_of s q.
Proof.
  unfold waiting_of. simpl. destruct (N.eqb_spec q p) as [->|Hn].
  - now rewrite lookup_set_eq.
  - rewrite lookup_set_neq by congruence. reflexivity.
Qed.

Lemma alloc_with_set s tot p v q :
  alloc_of (with_peers s tot (set p v (peers s))) q = if N.eqb q p then ps_alloc v else alloc_of s q.
Proof.
  unfold alloc_of. simpl. destruct (N.eqb_spec q p) as [->|Hn].
  - now rewrite lookup_set_eq.
  - rewrite lookup_set_neq by congruence. reflexivity.
Qed.

Lemma waiting_with_remove s tot p q : NoDup (keys (peers s)) ->
  waiting_of (with_peers s tot (remove p (peers s))) q = if N.eqb q p then [] else waiting_of s q.
Proof.
  intro Hn. unfold waiting_of. simpl. destruct (N.eqb_spec q p) as [->|Hne].
  - now rewrite lookup_remove_eq.
  - rewrite lookup_remove_neq by congruence. reflexivity.
Qed.

Lemma alloc_with_remove s tot p q : NoDup (keys (peers s)) ->
  alloc_of (with_peers s tot (remove p (peers s))) q = if N.eqb q p then 0 else alloc_of s q.
Proof.
  intro Hn. unfold alloc_of. simpl. destruct (N.eqb_spec q p) as [->|Hne].
  - now rewrite lookup_remove_eq.
  - rewrite lookup_remove_neq by congruence. reflexivity.
Qed.

Lemma tkinv_of_waiting tk s :
  (forall p x, In x (waiting_of s p) -> tkt_lookup (p_tkt x) tk = Some (p, p_amt x)) -> TkInv tk s.
Proof.
  intros H p ps x Hl Hx. apply H. now rewrite (waiting_lookup _ _ _ Hl).
Qed.

(* what processPendingAllocations emits applies, in emission order, to the waiting room: every
   granted ticket is the head of its peer's queue at that moment, and grants of one peer come in
   increasing ticket order *)
Definition from_waiting (s s' : st) (o : out) : Prop :=
  exists p x, In x (waiting_of s p) /\ o = Granted (p_tkt x) /\
              (forall y, In y (waiting_of s' p) -> p_tkt x < p_tkt y).

Lemma pp_sim tk f : forall fuel s acc s' outs ok w l,
  process_pending fuel s acc = (s', outs, ok) ->
  NoDup (keys (peers s)) -> TkInv tk s -> Tinc s -> R w l s ->
  exists new w' l', outs = acc ++ new /\ apply_outs14 tk new w l f = Some (w', l') /\
    R w' l' s' /\ Sub s s' /\ next_idx s' = next_idx s /\ POrd tk new /\
    (forall o, In o new -> from_waiting s s' o).
Proof.
  induction fuel as [|fu IH]; intros s acc s' outs ok w l H Hnd HT Hinc HR.
  - simpl in H. inversion H; subst. exists [], w, l. rewrite app_nil_r.
    repeat split; try apply HR; auto using sub_refl. intros o [].
  - assert (Hstop : forall s0 outs0 ok0, (s, acc, true) = (s0, outs0, ok0) ->
      exists new w' l', outs0 = acc ++ new /\ apply_outs14 tk new w l f = Some (w', l') /\
        R w' l' s0 /\ Sub s s0 /\ next_idx s0 = next_idx s /\ POrd tk new /\
        (forall o, In o new -> from_waiting s s0 o)).
    { intros s0 outs0 ok0 E. inversion E; subst. exists [], w, l. rewrite app_nil_r.
      repeat split; try apply HR; auto using sub_refl. intros o []. }
    simpl in H. destruct (min_peer (max_peer s) (peers s)) as [[p ps]|] eqn:Emin; [|exact (Hstop _ _ _ H)].
    pose proof (min_peer_in _ _ _ Emin) as Hin.
    pose proof (in_lookup _ _ _ Hnd Hin) as Hlk.
    destruct (ps_pend ps) as [|h rest] eqn:Epend.
    + destruct (N.ltb_spec 0 (ps_alloc ps)) as [Hpos|Hz]; [exact (Hstop _ _ _ H)|].
      assert (Ha : ps_alloc ps = 0) by lia.
      set (s1 := with_peers s (total s) (remove p (peers s))) in *.
      assert (Hw1 : forall q, waiting_of s1 q = waiting_of s q).
      { intro q. unfold s1. rewrite waiting_with_remove by exact Hnd.
        destruct (N.eqb_spec q p) as [->|]; [|reflexivity].
        now rewrite (waiting_lookup _ _ _ Hlk). }
      assert (Ha1 : forall q, alloc_of s1 q = alloc_of s q).
      { intro q. unfold s1. rewrite alloc_with_remove by exact Hnd.
        destruct (N.eqb_spec q p) as [->|]; [|reflexivity].
        unfold alloc_of. now rewrite Hlk. }
      destruct (IH s1 acc s' outs ok w l H) as (new & w' & l' & E & Eap & HR' & HS' & Ei & Hpo & Hfw).
      { apply nodup_remove, Hnd. }
      { apply tkinv_of_waiting. intros q x Hx. rewrite Hw1 in Hx. eapply tkinv_w; eauto. }
      { intro q. rewrite Hw1. apply Hinc. }
      { destruct HR as [A B]. split; intro q; [rewrite Hw1; apply A | rewrite Ha1; apply B]. }
      exists new, w', l'. split; [exact E|]. split; [exact Eap|]. split; [exact HR'|].
      split; [intro q; destruct (HS' q) as [pre Eq]; exists pre; now rewrite <- Hw1|].
      split; [exact Ei|]. split; [exact Hpo|].
      intros o Ho. destruct (Hfw o Ho) as (q & x & Hx & Eo & Hlt). exists q, x.
      rewrite <- Hw1. auto.
    + destruct (fits (total s) (p_amt h) (max_total s)) eqn:Ft; simpl in H; [|exact (Hstop _ _ _ H)].
      destruct (fits (ps_alloc ps) (p_amt h) (max_peer s)) eqn:Fp; simpl in H; [|exact (Hstop _ _ _ H)].
      set (v := {| ps_alloc := ps_alloc ps + p_amt h; ps_pend := rest |}) in *.
      set (s1 := with_peers s (total s + p_amt h) (set p v (peers s))) in *.
      assert (Hwp : waiting_of s p = h :: rest) by (rewrite (waiting_lookup _ _ _ Hlk); exact Epend).
      assert (Hw1 : forall q, waiting_of s1 q = if N.eqb q p then rest else waiting_of s q).
      { intro q. unfold s1. now rewrite waiting_with_set. }
      assert (Ha1 : forall q, alloc_of s1 q = if N.eqb q p then ps_alloc ps + p_amt h else alloc_of s q).
      { intro q. unfold s1. now rewrite alloc_with_set. }
      assert (Hsub1 : Sub s s1).
      { intro q. rewrite Hw1. destruct (N.eqb_spec q p) as [->|]; [|now exists []].
        exists [h]. now rewrite Hwp. }
      pose proof (Hinc p) as Hincp. rewrite Hwp in Hincp. destruct Hincp as [Hh Hrest].
      assert (Htk : tkt_lookup (p_tkt h) tk = Some (p, p_amt h)).
      { eapply tkinv_w; eauto. rewrite Hwp. now left. }
      assert (HT1 : TkInv tk s1).
      { apply tkinv_of_waiting. intros q x Hx. eapply tkinv_w; eauto. eapply sub_in; eauto. }
      destruct HR as [A B].
      set (w1 := wq_set p (qmap rest) w). set (l1 := led_set p (led_get p l + p_amt h) l).
      destruct (IH s1 (acc ++ [Granted (p_tkt h)]) s' outs ok w1 l1 H)
        as (new & w' & l' & E & Eap & HR' & HS' & Ei & Hpo & Hfw).
      { apply nodup_set, Hnd. }
      { exact HT1. }
      { intro q. rewrite Hw1. destruct (N.eqb q p); [exact Hrest | apply Hinc]. }
      { split; intro q.
        - unfold w1. rewrite wq_get_set, Hw1. destruct (N.eqb q p); [reflexivity | apply A].
        - unfold l1. rewrite led_get_set, Ha1. destruct (N.eqb q p); [|apply B].
          rewrite B. unfold alloc_of. now rewrite Hlk. }
      exists (Granted (p_tkt h) :: new), w', l'.
      split; [rewrite E, <- app_assoc; reflexivity|].
      split.
      { rewrite apply_cons.
        assert (Eh : app1 tk f (Granted (p_tkt h)) w l =
                     Some (wq_set p (qmap rest) w, upd (Granted (p_tkt h)) p (p_amt h) l)).
        { apply (app1_intro tk f (Granted (p_tkt h)) w l p (p_amt h) (p_amt h) (qmap rest)).
          - exact Htk.
          - reflexivity.
          - rewrite A, Hwp. reflexivity. }
        rewrite Eh. exact Eap. }
      split; [exact HR'|]. split; [eapply sub_trans; eauto|]. split; [exact Ei|].
      assert (Hlater : forall y, In y (waiting_of s' p) -> p_tkt h < p_tkt y).
      { intros y Hy. apply Hh. apply (sub_in _ _ _ _ HS') in Hy. rewrite Hw1, N.eqb_refl in Hy. exact Hy. }
      split.
      { split; [|exact Hpo]. intros x Hx Ep. destruct (Hfw x Hx) as (q & y & Hy & -> & _).
        simpl. unfold opeer in Ep. simpl in Ep. rewrite Htk in Ep.
        rewrite (tkinv_w _ _ _ _ HT1 Hy) in Ep. inversion Ep; subst q.
        rewrite Hw1, N.eqb_refl in Hy. now apply Hh. }
      intros o [<-|Ho].
      * exists p, h. split; [rewrite Hwp; now left|]. auto.
      * destruct (Hfw o Ho) as (q & x & Hx & Eo & Hlt). exists q, x.
        split; [eapply sub_in; eauto | auto].
Qed.

(* ---------- [stable] of the monitor follows from [StableSt] of the model ---------- *)
Lemma min_ticket_spec : forall l m, min_ticket l = Some m ->
  In m l /\ forall x, In x l -> fst (fst m) <= fst (fst x).
Proof.
  induction l as [|y l IH]; simpl; intros m H; [discriminate|].
  destruct (min_ticket l) as [m'|] eqn:E.
  - destruct (IH m' eq_refl) as [Hin Hmin].
    destruct (N.ltb_spec (fst (fst m')) (fst (fst y))) as [Hlt|Hge]; inversion H; subst.
    + split; [now right|]. intros x [<-|Hx]; [lia | now apply Hmin].
    + split; [now left|]. intros x [<-|Hx]; [lia | specialize (Hmin x Hx); lia].
  - inversion H; subst. destruct l as [|z l]; [|simpl in E; destruct (min_ticket l) as [u|];
      [destruct (fst (fst u) <? fst (fst z))|]; discriminate].
    split; [now left|]. intros x [<-|[]]. lia.
Qed.

Lemma in_eligible mp w l t p a :
  In (t, p, a) (eligible_heads mp w l) <->
  exists v, In (p, (t, a) :: v) w /\ fits (led_get p l) a mp = true.
Proof.
  unfold eligible_heads. rewrite in_flat_map. split.
  - intros [[q v] [Hin Hx]]. simpl in Hx. destruct v as [|[t' a'] v]; [contradiction|].
    destruct (fits (led_get q l) a' mp) eqn:Ef; [|contradiction].
    destruct Hx as [Hx|[]]. inversion Hx; subst. eauto.
  - intros [v [Hin Hf]]. exists (p, (t, a) :: v). split; [exact Hin|]. simpl. rewrite Hf. now left.
Qed.

Lemma waiting_cons s p h r : waiting_of s p = h :: r ->
  exists ps, lookup p (peers s) = Some ps /\ ps_pend ps = h :: r.
Proof. unfold waiting_of. destruct (lookup p (peers s)) as [ps|]; [eauto | discriminate]. Qed.

Lemma stable_of_rel tk w l s : Good s -> TkInv tk s -> QInv s -> R w l s ->
  NoDup (map fst w) -> led_sum l = total s -> stable (max_total s) (max_peer s) w l = true.
Proof.
  intros [HI HS] HT HQ [A B] Hnd Hsum. unfold stable.
  destruct (min_ticket (eligible_heads (max_peer s) w l)) as [[[t p] a]|] eqn:Em; [|reflexivity].
  destruct (min_ticket_spec _ _ Em) as [Hin Hmin].
  apply in_eligible in Hin as (v & Hin & Hfit).
  pose proof (wq_in_get _ _ _ Hnd Hin) as Ew. rewrite A in Ew.
  destruct (waiting_of s p) as [|h r] eqn:Ewp; [discriminate|]. simpl in Ew. inversion Ew; subst t a.
  destruct (waiting_cons _ _ _ _ Ewp) as (ps & Hlk & Hpend).
  assert (Hfit' : fits (ps_alloc ps) (p_amt h) (max_peer s) = true).
  { rewrite B in Hfit. unfold alloc_of in Hfit. now rewrite Hlk in Hfit. }
  destruct (HS p ps h r Hlk Hpend Hfit') as (q & qs & h' & r' & Hq & Hqp & Hqf & Hidx & Hnf).
  assert (Ewq : waiting_of s q = h' :: r') by (rewrite (waiting_lookup _ _ _ Hq); exact Hqp).
  assert (Hel : In (p_tkt h', q, p_amt h') (eligible_heads (max_peer s) w l)).
  { apply in_eligible. exists (qmap r'). split.
    - assert (Eg : wq_get q w = (p_tkt h', p_amt h') :: qmap r') by (rewrite A, Ewq; reflexivity).
      rewrite <- Eg. apply wq_get_in. rewrite Eg. discriminate.
    - rewrite B. unfold alloc_of. rewrite Hq. exact Hqf. }
  specialize (Hmin _ Hel). simpl in Hmin.
  assert (Hle : p_tkt h' <= p_tkt h).
  { apply (q_ord _ HQ q h' p h); [rewrite Ewq; now left | rewrite Ewp; now left | exact Hidx]. }
  assert (Et : p_tkt h' = p_tkt h) by lia.
  assert (T1 : tkt_lookup (p_tkt h) tk = Some (p, p_amt h)).
  { eapply tkinv_w; eauto. rewrite Ewp. now left. }
  assert (T2 : tkt_lookup (p_tkt h') tk = Some (q, p_amt h')).
  { eapply tkinv_w; eauto. rewrite Ewq. now left. }
  rewrite Et, T1 in T2. inversion T2 as [[Eq Ea]]. rewrite Hsum, Ea, Hnf. reflexivity.
Qed.

(* ---------- the simulation relation carried along a history ---------- *)
Definition Rel14 (tk : tkt_info) (w : waitq) (l : ledger) (s : st) : Prop :=
  Good s /\ TkRel tk s /\ QInv s /\ R w l s /\ NoDup (map fst w) /\ led_sum l = total s.

Lemma rel14_init mt mp : Rel14 [] [] [] (init mt mp).
Proof.
  destruct (good_init mt mp) as [HG HT].
  split; [exact HG|]. split; [exact HT|]. split.
  { constructor; unfold waiting_of; simpl; [intro; exact I | intros ? ? [] | intros ? ? ? ? []]. }
  split; [split; intro p; reflexivity|]. split; [constructor | reflexivity].
Qed.

Lemma rel14_stable tk w l s : Rel14 tk w l s -> stable (max_total s) (max_peer s) w l = true.
Proof.
  intros (HG & [HT _] & HQ & HR & Hnd & Hsum). eapply stable_of_rel; eauto.
Qed.

(* ---------- AllocateBlockMemory ---------- *)
Lemma alloc_full s p a :
  let '(s', outs, err, ok) := step s (OAlloc p a) in
  let g := can_grant_now s p a in
  let nw := {| p_amt := a; p_idx := next_idx s; p_tkt := next_tkt s |} in
  outs = (if g then [Granted (next_tkt s)] else []) /\
  next_idx s' = (if g then next_idx s else next_idx s + 1) /\
  total s' = (if g then total s + a else total s) /\
  (forall q, waiting_of s' q = if N.eqb q p && negb g then waiting_of s q ++ [nw] else waiting_of s q) /\
  (forall q, alloc_of s' q = if N.eqb q p && g then alloc_of s q + a else alloc_of s q).
Proof.
  unfold step, can_grant_now, waiting_of, alloc_of.
  destruct (lookup p (peers s)) as [ps|] eqn:El; cbn [ps_pend ps_alloc].
  - destruct (ps_pend ps) as [|h r] eqn:Ep.
    + destruct (fits (total s) a (max_total s) && fits (ps_alloc ps) a (max_peer s)) eqn:Ef;
        cbn [peers bump_tkt next_idx total negb andb];
        (split; [reflexivity|]); (split; [reflexivity|]); (split; [reflexivity|]);
        split; intro q; destruct (N.eqb_spec q p) as [->|Hn]; cbn [andb];
        rewrite ?lookup_set_eq, ?El, ?Ep; try reflexivity;
        rewrite lookup_set_neq by congruence; reflexivity.
    + cbn [peers bump_tkt next_idx total negb andb].
      (split; [reflexivity|]); (split; [reflexivity|]); (split; [reflexivity|]);
        split; intro q; destruct (N.eqb_spec q p) as [->|Hn]; cbn [andb];
        rewrite ?lookup_set_eq, ?El, ?Ep; try reflexivity;
        rewrite lookup_set_neq by congruence; reflexivity.
  - destruct (fits (total s) a (max_total s) && fits 0 a (max_peer s)) eqn:Ef;
      cbn [peers bump_tkt next_idx total negb andb];
      (split; [reflexivity|]); (split; [reflexivity|]); (split; [reflexivity|]);
      split; intro q; destruct (N.eqb_spec q p) as [->|Hn]; cbn [andb];
      rewrite ?lookup_set_eq, ?El; try reflexivity;
      rewrite lookup_set_neq by congruence; reflexivity.
Qed.

Lemma now_eq w l s p a : R w l s -> led_sum l = total s ->
  match wq_get p w with
  | [] => fits (led_sum l) a (max_total s) && fits (led_get p l) a (max_peer s)
  | _ => false
  end = can_grant_now s p a.
Proof.
  intros [A B] Hsum. rewrite A. unfold can_grant_now.
  destruct (waiting_of s p); simpl; [now rewrite Hsum, B | reflexivity].
Qed.

Lemma tkrel_bound tk s p x : TkRel tk s -> In x (waiting_of s p) -> p_tkt x < next_tkt s.
Proof. intros [HT HB] Hx. eapply HB. eapply tkinv_w; eauto. Qed.

Lemma sim_alloc tk w l s p a s' outs err ok : Rel14 tk w l s ->
  step s (OAlloc p a) = (s', outs, err, ok) -> step_post tk s (OAlloc p a) s' outs err ->
  let tk' := (next_tkt s, (p, a)) :: tk in
  if can_grant_now s p a
  then outs = [Granted (next_tkt s)] /\ Rel14 tk' w (led_set p (led_get p l + a) l) s'
  else outs = [] /\ Rel14 tk' (wq_set p (wq_get p w ++ [(next_tkt s, a)]) w) l s'.
Proof.
  intros (HG & HT & HQ & [A B] & Hnd & Hsum) E HP tk'.
  destruct HP as (HG' & HT' & _). simpl tk_ext in HT'. fold tk' in HT'.
  pose proof (alloc_full s p a) as F. rewrite E in F. cbv zeta in F.
  destruct F as (Eo & Ei & Etot & Hw & Ha).
  destruct (can_grant_now s p a) eqn:Eg.
  - split; [exact Eo|]. split; [exact HG'|]. split; [exact HT'|].
    assert (Hw' : forall q, waiting_of s' q = waiting_of s q).
    { intro q. rewrite Hw. cbn [negb]. now rewrite andb_false_r. }
    split.
    { apply (qinv_sub s s' HQ); [|exact Ei]. intro q. exists []. now rewrite Hw'. }
    split.
    { split; intro q; [rewrite Hw'; apply A|].
      rewrite led_get_set, Ha, andb_true_r. destruct (N.eqb_spec q p) as [->|]; now rewrite B. }
    split; [exact Hnd|].
    pose proof (led_sum_set p (led_get p l + a) l). lia.
  - split; [exact Eo|]. split; [exact HG'|]. split; [exact HT'|].
    set (nw := {| p_amt := a; p_idx := next_idx s; p_tkt := next_tkt s |}) in *.
    assert (Hw' : forall q, waiting_of s' q = if N.eqb q p then waiting_of s q ++ [nw] else waiting_of s q).
    { intro q. rewrite Hw. cbn [negb]. now rewrite andb_true_r. }
    assert (Hcases : forall q x, In x (waiting_of s' q) -> In x (waiting_of s q) \/ (x = nw /\ q = p)).
    { intros q x Hx. rewrite Hw' in Hx. destruct (N.eqb_spec q p) as [->|]; [|now left].
      apply in_app_iff in Hx as [Hx|[<-|[]]]; [now left | now right]. }
    split.
    { constructor.
      - intro q. rewrite Hw'. destruct (N.eqb_spec q p) as [->|]; [|apply HQ].
        apply tinc_snoc; [apply HQ|]. intros x Hx. simpl. eapply tkrel_bound; eauto.
      - intros q x Hx. rewrite Ei. destruct (Hcases q x Hx) as [Hold|[-> _]].
        + pose proof (q_idx _ HQ q x Hold). lia.
        + simpl. lia.
      - intros q1 x q2 y Hx Hy Hle.
        destruct (Hcases q1 x Hx) as [Hox|[-> _]], (Hcases q2 y Hy) as [Hoy|[-> _]].
        + eapply (q_ord _ HQ); eauto.
        + simpl. pose proof (tkrel_bound _ _ _ _ HT Hox). lia.
        + simpl in Hle. pose proof (q_idx _ HQ q2 y Hoy). lia.
        + lia. }
    split.
    { split; intro q.
      - rewrite wq_get_set, Hw'. destruct (N.eqb_spec q p) as [->|]; [|apply A].
        rewrite A. unfold qmap. rewrite map_app. reflexivity.
      - rewrite Ha, andb_false_r. apply B. }
    split; [now apply wq_nodup_set | lia].
Qed.

(* ---------- ReleaseBlockMemory ---------- *)
Lemma sub_with_set s tot p ps v : lookup p (peers s) = Some ps -> ps_pend v = ps_pend ps ->
  forall q, waiting_of (with_peers s tot (set p v (peers s))) q = waiting_of s q.
Proof.
  intros Hlk Ev q. rewrite waiting_with_set. destruct (N.eqb_spec q p) as [->|]; [|reflexivity].
  now rewrite (waiting_lookup _ _ _ Hlk).
Qed.

Lemma sim_release tk w l s p a s' outs ok : Rel14 tk w l s ->
  step s (ORelease p a) = (s', outs, false, ok) -> step_post tk s (ORelease p a) s' outs false ->
  exists w' l',
    apply_outs14 tk (sort_outs outs) w
      (led_set p (led_get p l - (if a <=? led_get p l then a else led_get p l)) l) None = Some (w', l') /\
    Rel14 tk w' l' s' /\ (forall o, In o outs -> from_waiting s s' o).
Proof.
  intros (HG & HT & HQ & [A B] & Hnd & Hsum) E HP.
  destruct HP as (HG' & HT' & _ & _ & _ & _ & Htot & _). simpl tk_ext in HT'. cbn [tk_ext base_alloc op_peer] in Htot.
  unfold step in E. destruct (lookup p (peers s)) as [ps|] eqn:Hlk; [|discriminate].
  cbv zeta in E.
  match type of E with context [run_pending ?s0 []] => set (s1 := s0) in * end.
  destruct (run_pending s1 []) as [[s2 outs2] ok2] eqn:Erp. inversion E; subst s2 outs2 ok2. clear E.
  set (v := {| ps_alloc := ps_alloc ps - (if a <=? ps_alloc ps then a else ps_alloc ps);
               ps_pend := ps_pend ps |}) in *.
  assert (Hw1 : forall q, waiting_of s1 q = waiting_of s q).
  { intro q. unfold s1. apply (sub_with_set s _ p ps v Hlk eq_refl). }
  assert (Ecur : led_get p l = ps_alloc ps) by (rewrite B; unfold alloc_of; now rewrite Hlk).
  rewrite Ecur.
  set (l1 := led_set p (ps_alloc ps - (if a <=? ps_alloc ps then a else ps_alloc ps)) l).
  destruct HG as [HI HS]. destruct HT as [HTi HB].
  unfold run_pending in Erp.
  destruct (pp_sim tk None _ s1 [] s' outs ok w l1 Erp)
    as (new & w' & l' & Eo & Eap & HR' & HS' & Ei & Hpo & Hfw).
  { unfold s1. simpl. apply nodup_set, HI. }
  { apply tkinv_of_waiting. intros q x Hx. rewrite Hw1 in Hx. eapply tkinv_w; eauto. }
  { intro q. rewrite Hw1. apply HQ. }
  { split; intro q; [rewrite Hw1; apply A|].
    unfold l1, s1. rewrite led_get_set, alloc_with_set. destruct (N.eqb q p); [reflexivity | apply B]. }
  simpl in Eo. subst new.
  destruct (apply_sorted _ _ _ _ _ _ _ Hpo Eap) as (w2 & l2 & Es & Hw2 & Hl2).
  exists w2, l2. split; [exact Es|].
  split.
  2:{ intros o Ho. destruct (Hfw o Ho) as (q & x & Hx & Eo & Hlt). exists q, x. rewrite <- Hw1. auto. }
  split; [exact HG'|]. split; [exact HT'|]. split.
  { apply (qinv_sub s s' HQ).
    - intro q. destruct (HS' q) as [pre Eq]. exists pre. now rewrite <- Hw1.
    - rewrite Ei. reflexivity. }
  split; [eapply R_ext; eauto|]. split; [eapply apply_nodup; eauto|].
  pose proof (apply_sum _ _ _ _ _ _ _ Es) as Hs2. rewrite gtot_sort in Hs2.
  rewrite N.eqb_refl in Htot. unfold alloc_of in Htot. rewrite Hlk in Htot.
  pose proof (led_sum_set p (ps_alloc ps - (if a <=? ps_alloc ps then a else ps_alloc ps)) l) as Hl1.
  fold l1 in Hl1. rewrite Ecur in Hl1.
  set (e := ps_alloc ps - (if a <=? ps_alloc ps then a else ps_alloc ps)) in *. lia.
Qed.

(* ---------- ReleasePeerMemory ---------- *)
Lemma apply_fails tk p : forall pend w l,
  (forall x, In x pend -> tkt_lookup (p_tkt x) tk = Some (p, p_amt x)) ->
  wq_get p w = qmap pend ->
  exists w', apply_outs14 tk (map (fun x => Failed (p_tkt x)) pend) w l (Some p) = Some (w', l) /\
             wq_get p w' = [] /\ (forall q, q <> p -> wq_get q w' = wq_get q w).
Proof.
  induction pend as [|h r IH]; intros w l Htk Ew.
  - exists w. simpl. auto.
  - destruct (IH (wq_set p (qmap r) w) l) as (w' & Eap & Ep & Hq).
    { intros x Hx. apply Htk. now right. }
    { rewrite wq_get_set, N.eqb_refl. reflexivity. }
    exists w'. split; [|split; [exact Ep|]].
    + cbn [map]. rewrite apply_cons.
      rewrite (app1_intro tk (Some p) (Failed (p_tkt h)) w l p (p_amt h) (p_amt h) (qmap r)).
      * exact Eap.
      * apply Htk. now left.
      * simpl. apply N.eqb_refl.
      * rewrite Ew. reflexivity.
    + intros q Hn. rewrite Hq by exact Hn. rewrite wq_get_set.
      destruct (N.eqb_spec q p); [contradiction | reflexivity].
Qed.

Lemma pord_app tk : forall a b, POrd tk a -> POrd tk b ->
  (forall x y, In x a -> In y b -> opeer tk y = opeer tk x -> out_tkt x < out_tkt y) ->
  POrd tk (a ++ b).
Proof.
  induction a as [|o a IH]; intros b Ha Hb Hab; [exact Hb|].
  destruct Ha as [Ho Ha]. simpl. split.
  - intros x Hx Ep. apply in_app_iff in Hx as [Hx|Hx]; [now apply Ho | apply Hab; auto; now left].
  - apply IH; auto. intros x y Hx Hy. apply Hab; auto. now right.
Qed.

Lemma pord_fails tk : forall pend, tinc pend -> POrd tk (map (fun x => Failed (p_tkt x)) pend).
Proof.
  induction pend as [|h r IH]; intros Hi; [exact I|].
  destruct Hi as [Hh Hr]. simpl. split; [|now apply IH].
  intros x Hx _. apply in_map_iff in Hx as (y & <- & Hy). simpl. now apply Hh.
Qed.

Lemma sim_release_peer tk w l s p s' outs ok : Rel14 tk w l s ->
  step s (OReleasePeer p) = (s', outs, false, ok) -> step_post tk s (OReleasePeer p) s' outs false ->
  exists w' l',
    apply_outs14 tk (sort_outs outs) w (led_set p 0 l) (Some p) = Some (w', l') /\
    wq_get p w' = [] /\ Rel14 tk w' l' s' /\
    (forall t, In (Granted t) outs -> from_waiting s s' (Granted t)).
Proof.
  intros (HG & HT & HQ & [A B] & Hnd & Hsum) E HP.
  destruct HP as (HG' & HT' & _ & _ & _ & _ & Htot & _ & Hrp). simpl tk_ext in HT'. cbn [tk_ext base_alloc op_peer] in Htot.
  specialize (Hrp p eq_refl eq_refl).
  unfold step in E. destruct (lookup p (peers s)) as [ps|] eqn:Hlk; [|discriminate].
  cbv zeta in E.
  match type of E with context [run_pending ?s0 ?fl] => set (s1 := s0) in *; set (fails := fl) in * end.
  destruct (run_pending s1 fails) as [[s2 outs2] ok2] eqn:Erp. inversion E; subst s2 outs2 ok2. clear E.
  destruct HG as [HI HS]. destruct HT as [HTi HB].
  pose proof (inv_nodup _ HI) as Hnds.
  assert (Hw1 : forall q, waiting_of s1 q = if N.eqb q p then [] else waiting_of s q).
  { intro q. unfold s1. now apply waiting_with_remove. }
  assert (Ha1 : forall q, alloc_of s1 q = if N.eqb q p then 0 else alloc_of s q).
  { intro q. unfold s1. now apply alloc_with_remove. }
  assert (Hsub1 : Sub s s1).
  { intro q. rewrite Hw1. destruct (N.eqb q p); [exists (waiting_of s q); now rewrite app_nil_r | now exists []]. }
  assert (Ewp : waiting_of s p = ps_pend ps) by now apply waiting_lookup.
  set (l1 := led_set p 0 l).
  destruct (apply_fails tk p (ps_pend ps) w l1) as (wf & Ef & Epf & Hqf).
  { intros x Hx. eapply HTi; eauto. }
  { rewrite A, Ewp. reflexivity. }
  fold fails in Ef.
  assert (HT1 : TkInv tk s1).
  { apply tkinv_of_waiting. intros q x Hx. eapply tkinv_w; eauto. eapply sub_in; eauto. }
  unfold run_pending in Erp.
  destruct (pp_sim tk (Some p) _ s1 fails s' outs ok wf l1 Erp)
    as (new & w' & l' & Eo & Eap & HR' & HS' & Ei & Hpo & Hfw).
  { unfold s1. simpl. now apply nodup_remove. }
  { exact HT1. }
  { intro q. rewrite Hw1. destruct (N.eqb q p); [exact I | apply HQ]. }
  { split; intro q.
    - rewrite Hw1. destruct (N.eqb_spec q p) as [->|Hn]; [exact Epf|]. rewrite Hqf by exact Hn. apply A.
    - unfold l1. rewrite led_get_set, Ha1. destruct (N.eqb q p); [reflexivity | apply B]. }
  assert (Eall : apply_outs14 tk outs w l1 (Some p) = Some (w', l')).
  { rewrite Eo, apply_app, Ef. exact Eap. }
  assert (Hpall : POrd tk outs).
  { rewrite Eo. apply pord_app; [|exact Hpo|].
    - unfold fails. apply pord_fails. rewrite <- Ewp. apply HQ.
    - intros x y Hx Hy Ep. exfalso.
      unfold fails in Hx. apply in_map_iff in Hx as (z & <- & Hz).
      destruct (Hfw y Hy) as (q & u & Hu & -> & _).
      unfold opeer in Ep. simpl in Ep.
      rewrite (HTi p ps z Hlk Hz), (tkinv_w _ _ _ _ HT1 Hu) in Ep. inversion Ep; subst q.
      rewrite Hw1, N.eqb_refl in Hu. exact Hu. }
  destruct (apply_sorted _ _ _ _ _ _ _ Hpall Eall) as (w2 & l2 & Es & Hw2 & Hl2).
  assert (HR2 : R w2 l2 s') by (eapply R_ext; eauto).
  exists w2, l2. split; [exact Es|]. split.
  { destruct HR2 as [A2 _]. rewrite A2. unfold waiting_of. now rewrite Hrp. }
  split.
  2:{ intros t Ht. rewrite Eo in Ht. apply in_app_iff in Ht as [Ht|Ht].
      - unfold fails in Ht. apply in_map_iff in Ht as (z & Ez & _). discriminate.
      - destruct (Hfw _ Ht) as (q & x & Hx & Ex & Hlt). exists q, x.
        split; [eapply sub_in; eauto | auto]. }
  split; [exact HG'|]. split; [exact HT'|]. split.
  { apply (qinv_sub s s' HQ); [eapply sub_trans; eauto | rewrite Ei; reflexivity]. }
  split; [exact HR2|]. split; [eapply apply_nodup; eauto|].
  pose proof (apply_sum _ _ _ _ _ _ _ Es) as Hs2. rewrite gtot_sort in Hs2.
  rewrite N.eqb_refl in Htot.
  pose proof (led_sum_set p 0 l) as Hl1. fold l1 in Hl1. rewrite B in Hl1. lia.
Qed.

(* ---------- the monitor accepts every history of the model ---------- *)
Lemma run_cons univ s o r s' outs err ok : step s o = (s', outs, err, ok) ->
  fst (run univ s (o :: r)) = observe univ s' outs err :: fst (run univ s' r).
Proof. intro E. simpl. rewrite E. destruct (run univ s' r). reflexivity. Qed.

Theorem monitor14_run univ : forall ops s tk w l,
  Rel14 tk w l s ->
  monitor14 (max_total s) (max_peer s) tk (next_tkt s) w l ops (fst (run univ s ops)) = true.
Proof.
  induction ops as [|o ops IH]; intros s tk w l HR; [reflexivity|].
  pose proof HR as (HG & HT & HQ & HRr & Hnd & Hsum).
  destruct (step_spec tk s o HG HT) as (s' & outs & err & E & HP).
  rewrite (run_cons univ s o ops s' outs err true E).
  pose proof HP as (_ & _ & Emt & Emp & Ent & _ & _ & Herr & _).
  destruct o as [p a|p a|p]; cbn [monitor14].
  - (* AllocateBlockMemory *)
    rewrite (now_eq w l s p a HRr Hsum), observe_outs, observe_err.
    pose proof (sim_alloc tk w l s p a s' outs err true HR E HP) as Hs. cbv zeta in Hs.
    assert (Eerr : err = false).
    { destruct (step_alloc tk s p a HG HT) as (s0 & o0 & E0 & _). congruence. }
    subst err.
    destruct (can_grant_now s p a).
    + destruct Hs as [-> HR'].
      cbn [sort_outs fold_right insert_out list_eqb out_eqb negb andb]. rewrite N.eqb_refl.
      pose proof (rel14_stable _ _ _ _ HR') as Hst. rewrite Emt, Emp in Hst. rewrite Hst.
      specialize (IH s' _ _ _ HR'). rewrite Emt, Emp, Ent in IH. rewrite IH. reflexivity.
    + destruct Hs as [-> HR'].
      cbn [sort_outs fold_right list_eqb negb andb].
      pose proof (rel14_stable _ _ _ _ HR') as Hst. rewrite Emt, Emp in Hst. rewrite Hst.
      specialize (IH s' _ _ _ HR'). rewrite Emt, Emp, Ent in IH. rewrite IH. reflexivity.
  - (* ReleaseBlockMemory *)
    rewrite observe_outs, observe_err. destruct err.
    + destruct (Herr eq_refl) as [-> ->]. cbn [sort_outs fold_right list_eqb andb]. now apply IH.
    + destruct (sim_release tk w l s p a s' outs true HR E HP) as (w' & l' & Eap & HR' & _).
      rewrite Eap.
      pose proof (rel14_stable _ _ _ _ HR') as Hst. rewrite Emt, Emp in Hst. rewrite Hst.
      specialize (IH s' _ _ _ HR'). rewrite Emt, Emp, Ent in IH. rewrite IH. reflexivity.
  - (* ReleasePeerMemory *)
    rewrite observe_outs, observe_err. destruct err.
    + destruct (Herr eq_refl) as [-> ->]. cbn [sort_outs fold_right list_eqb andb]. now apply IH.
    + destruct (sim_release_peer tk w l s p s' outs true HR E HP) as (w' & l' & Eap & Ewp & HR' & _).
      rewrite Eap, Ewp.
      pose proof (rel14_stable _ _ _ _ HR') as Hst. rewrite Emt, Emp in Hst. rewrite Hst.
      specialize (IH s' _ _ _ HR'). rewrite Emt, Emp, Ent in IH. rewrite IH. reflexivity.
Qed.

Theorem c14_monitor : forall mt mp univ ops,
  monitor_C14 mt mp ops (fst (run univ (init mt mp) ops)) = true.
Proof.
  intros mt mp univ ops. exact (monitor14_run univ ops (init mt mp) [] [] [] (rel14_init mt mp)).
Qed.

(* ---------- the FIFO clause stated on the model directly ---------- *)
(* a ticket granted by a call is either the request of that very call (then nothing of that peer was
   waiting), or it was waiting for some peer and everything that peer still has waiting after the
   call was requested later *)
Definition grant_in_order (s : st) (o : op) (s' : st) (t : ticket) : Prop :=
  (exists p a, o = OAlloc p a /\ t = next_tkt s /\ waiting_of s p = []) \/
  (exists p x, In x (waiting_of s p) /\ t = p_tkt x /\
               forall y, In y (waiting_of s' p) -> p_tkt x < p_tkt y).

Lemma step_fifo tk w l s o : Rel14 tk w l s ->
  exists s' outs err tk' w' l', step s o = (s', outs, err, true) /\ Rel14 tk' w' l' s' /\
    forall t, In (Granted t) outs -> grant_in_order s o s' t.
Proof.
  intro HR. pose proof HR as (HG & HT & _).
  destruct (step_spec tk s o HG HT) as (s' & outs & err & E & HP).
  pose proof HP as (_ & _ & _ & _ & _ & _ & _ & Herr & _).
  destruct o as [p a|p a|p].
  - pose proof (sim_alloc tk w l s p a s' outs err true HR E HP) as Hs. cbv zeta in Hs.
    destruct (can_grant_now s p a) eqn:Eg; destruct Hs as [-> HR'].
    + exists s', [Granted (next_tkt s)], err, ((next_tkt s, (p, a)) :: tk), w, (led_set p (led_get p l + a) l).
      split; [exact E|]. split; [exact HR'|].
      intros t [Et|[]]. inversion Et; subst t. left. exists p, a. split; [reflexivity|]. split; [reflexivity|].
      unfold can_grant_now in Eg. destruct (waiting_of s p); [reflexivity | discriminate].
    + eexists s', [], err, _, _, _. split; [exact E|]. split; [exact HR'|]. intros t [].
  - destruct err.
    + destruct (Herr eq_refl) as [-> ->]. exists s, [], true, tk, w, l.
      split; [exact E|]. split; [exact HR|]. intros t [].
    + destruct (sim_release tk w l s p a s' outs true HR E HP) as (w' & l' & _ & HR' & Hfw).
      exists s', outs, false, tk, w', l'. split; [exact E|]. split; [exact HR'|].
      intros t Ht. right. destruct (Hfw _ Ht) as (q & x & Hx & Ex & Hlt). inversion Ex; subst t. eauto.
  - destruct err.
    + destruct (Herr eq_refl) as [-> ->]. exists s, [], true, tk, w, l.
      split; [exact E|]. split; [exact HR|]. intros t [].
    + destruct (sim_release_peer tk w l s p s' outs true HR E HP) as (w' & l' & _ & _ & HR' & Hfw).
      exists s', outs, false, tk, w', l'. split; [exact E|]. split; [exact HR'|].
      intros t Ht. right. destruct (Hfw _ Ht) as (q & x & Hx & Ex & Hlt). inversion Ex; subst t. eauto.
Qed.

Lemma final_rel14 : forall ops s tk w l, Rel14 tk w l s ->
  exists tk' w' l', Rel14 tk' w' l' (final s ops).
Proof.
  induction ops as [|o ops IH]; intros s tk w l HR; simpl; [eauto|].
  destruct (step_fifo tk w l s o HR) as (s' & outs & err & tk' & w' & l' & E & HR' & _).
  rewrite E. eapply IH; eauto.
Qed.

(* per-peer FIFO, in every call from every reachable state: no allocation of a peer is granted
   while an earlier-requested allocation of the same peer is still waiting *)
Theorem c14_no_overtake : forall mt mp ops o,
  let s := final (init mt mp) ops in
  let '(s', outs, err, ok) := step s o in
  forall t, In (Granted t) outs -> grant_in_order s o s' t.
Proof.
  intros mt mp ops o s.
  destruct (final_rel14 ops _ _ _ _ (rel14_init mt mp)) as (tk & w & l & HR). fold s in HR.
  destruct (step_fifo tk w l s o HR) as (s' & outs & err & tk' & w' & l' & E & _ & H).
  rewrite E. exact H.
Qed.

(* the waiting queues of every reachable state are in request order, below the next ticket *)
Theorem c14_queues_in_request_order : forall mt mp ops p,
  let s := final (init mt mp) ops in
  tinc (waiting_of s p) /\ forall x, In x (waiting_of s p) -> p_tkt x < next_tkt s.
Proof.
  intros mt mp ops p s.
  destruct (final_rel14 ops _ _ _ _ (rel14_init mt mp)) as (tk & w & l & HR). fold s in HR.
  destruct HR as (_ & HT & HQ & _). split; [apply HQ|]. intros x Hx. eapply tkrel_bound; eauto.
Qed.

(* ---------- what an accepted history guarantees: grants of one peer in request order ---------- *)
(* the ticket table of a script: ticket number i belongs to the i-th OAlloc (as in the monitors) *)
Definition nt_next (nt : ticket) (o : op) : ticket := match o with OAlloc _ _ => nt + 1 | _ => nt end.
Fixpoint tk_build (tk : tkt_info) (nt : ticket) (ops : list op) : tkt_info :=
  match ops with [] => tk | o :: r => tk_build (tk_ext tk nt o) (nt_next nt o) r end.
Definition tickets_of (ops : list op) : tkt_info := tk_build [] 0 ops.

(* the tickets granted to peer p, in the order in which the outcomes are listed *)
Definition granted_to (tk : tkt_info) (p : peer) (outs : list out) : list ticket :=
  flat_map (fun o => match o with
                     | Granted t => match tkt_lookup t tk with
                                    | Some (q, _) => if N.eqb q p then [t] else []
                                    | None => []
                                    end
                     | Failed _ => []
                     end) outs.

Fixpoint incr (l : list N) : Prop :=
  match l with [] => True | x :: r => (forall y, In y r -> x < y) /\ incr r end.

Lemma incr_app a b : incr a -> incr b -> (forall x y, In x a -> In y b -> x < y) -> incr (a ++ b).
Proof.
  induction a as [|z a IH]; simpl; intros Ha Hb Hab; [exact Hb|].
  destruct Ha as [Hz Ha]. split.
  - intros y Hy. apply in_app_iff in Hy as [Hy|Hy]; [now apply Hz | apply Hab; auto].
  - apply IH; auto.
Qed.

Lemma granted_to_app tk p a b : granted_to tk p (a ++ b) = granted_to tk p a ++ granted_to tk p b.
Proof. unfold granted_to. apply flat_map_app. Qed.

Definition KB (tk : tkt_info) (nt : ticket) : Prop := forall t v, tkt_lookup t tk = Some v -> t < nt.

Lemma kb_ext tk nt o : KB tk nt -> KB (tk_ext tk nt o) (nt_next nt o).
Proof.
  intros H t v. destruct o as [p a|p a|p]; simpl; try apply H.
  destruct (N.eqb_spec t nt); intro E; [lia | apply H in E; lia].
Qed.

Lemma lookup_ext tk nt o t v : KB tk nt -> tkt_lookup t tk = Some v -> tkt_lookup t (tk_ext tk nt o) = Some v.
Proof.
  intros H E. destruct o as [p a|p a|p]; simpl; try exact E.
  destruct (N.eqb_spec t nt); [apply H in E; lia | exact E].
Qed.

Lemma tk_build_lookup : forall ops tk nt t v, KB tk nt -> tkt_lookup t tk = Some v ->
  tkt_lookup t (tk_build tk nt ops) = Some v.
Proof.
  induction ops as [|o ops IH]; intros tk nt t v HK E; simpl; [exact E|].
  apply IH; [now apply kb_ext | now apply lookup_ext].
Qed.

Lemma granted_to_ext tk tk2 p outs :
  (forall t v, tkt_lookup t tk = Some v -> tkt_lookup t tk2 = Some v) ->
  (forall o, In o outs -> exists v, tkt_lookup (out_tkt o) tk = Some v) ->
  granted_to tk2 p outs = granted_to tk p outs.
Proof.
  intros Hext. induction outs as [|o r IH]; intro Hall; [reflexivity|].
  unfold granted_to in *. simpl. rewrite IH by (intros x Hx; apply Hall; now right). f_equal.
  destruct o as [t|t]; [|reflexivity]. destruct (Hall (Granted t) (or_introl eq_refl)) as [v Ev].
  simpl in Ev. now rewrite (Hext _ _ Ev), Ev.
Qed.

(* invariant of the monitor's own waiting room *)
Definition WInv (tk : tkt_info) (nt : ticket) (w : waitq) : Prop :=
  KB tk nt /\ (forall p, incr (map fst (wq_get p w))) /\
  (forall p t a, In (t, a) (wq_get p w) -> t < nt /\ exists a', tkt_lookup t tk = Some (p, a')).

Definition whead (p : peer) (w : waitq) (nt : ticket) : ticket :=
  match wq_get p w with (h, _) :: _ => h | [] => nt end.

Lemma winv_tail tk nt w p t a q' : WInv tk nt w -> wq_get p w = (t, a) :: q' ->
  WInv tk nt (wq_set p q' w) /\ t < whead p (wq_set p q' w) nt /\ (forall q, q <> p -> whead q (wq_set p q' w) nt = whead q w nt).
Proof.
  intros (HK & Hinc & Hmem) Ew. split; [split; [exact HK|split]|split].
  - intro q. rewrite wq_get_set. destruct (N.eqb_spec q p) as [->|]; [|apply Hinc].
    specialize (Hinc p). rewrite Ew in Hinc. apply Hinc.
  - intros q u b. rewrite wq_get_set. destruct (N.eqb_spec q p) as [->|]; [|apply Hmem].
    intro Hin. apply (Hmem p u b). rewrite Ew. now right.
  - unfold whead. rewrite wq_get_set, N.eqb_refl.
    destruct q' as [|[u b] q'].
    + apply (Hmem p t a). rewrite Ew. now left.
    + specialize (Hinc p). rewrite Ew in Hinc. simpl in Hinc. apply Hinc. now left.
  - intros q Hn. unfold whead. rewrite wq_get_set. destruct (N.eqb_spec q p); [contradiction | reflexivity].
Qed.

Lemma apply_order tk f nt : forall outs w l w' l',
  apply_outs14 tk outs w l f = Some (w', l') -> WInv tk nt w ->
  WInv tk nt w' /\ (forall o, In o outs -> exists v, tkt_lookup (out_tkt o) tk = Some v) /\ forall p, incr (granted_to tk p outs) /\           (forall t, In t (granted_to tk p outs) -> whead p w nt <= t /\ t < whead p w' nt) /\           whead p w nt <= whead p w' nt.
Proof.
  induction outs as [|o r IH]; intros w l w' l' H HW.
  - rewrite apply_nil in H. inversion H; subst. split; [exact HW|]. split; [intros o []|].
    intro p. simpl. split; [exact I|]. split; [intros t []|lia].
  - rewrite apply_cons in H. destruct (app1 tk f o w l) as [[w1 l1]|] eqn:E1; [|discriminate].
    apply app1_some in E1 as (p0 & a & a' & q' & Ht & Ef & Ew & -> & ->).
    destruct (winv_tail _ _ _ _ _ _ _ HW Ew) as (HW1 & Hlt & Hoth).
    destruct (IH _ _ _ _ H HW1) as (HW' & Hlk & Hp).
    split; [exact HW'|]. split.
    { intros x [<-|Hx]; [eauto | now apply Hlk]. }
    intro p. destruct (Hp p) as (Hi & Hb & Hh).
    assert (Hh0 : whead p w nt <= whead p (wq_set p0 q' w) nt).
    { destruct (N.eqb_spec p p0) as [->|Hn]; [|rewrite Hoth by exact Hn; lia].
      unfold whead at 1. rewrite Ew. lia. }
    change (o :: r) with ([o] ++ r). rewrite granted_to_app.
    assert (Hg : granted_to tk p [o] = [] \/ (granted_to tk p [o] = [out_tkt o] /\ p0 = p)).
    { unfold granted_to. simpl. destruct o as [t|t]; [|now left]. simpl in Ht. rewrite Ht.
      destruct (N.eqb_spec p0 p); [right; auto | now left]. }
    destruct Hg as [->|[-> ->]]; simpl app.
    + split; [exact Hi|]. split; [|lia]. intros t Hin. destruct (Hb t Hin). lia.
    + assert (Eh : whead p w nt = out_tkt o) by (unfold whead; now rewrite Ew).
      split; [|split; [|lia]].
      * simpl. split; [|exact Hi]. intros y Hy. destruct (Hb y Hy). lia.
      * intros t [<-|Hin]; [lia|]. destruct (Hb t Hin). lia.
Qed.

Lemma out_eqb_eq a b : out_eqb a b = true <-> a = b.
Proof.
  destruct a as [x|x], b as [y|y]; simpl; split; intro H; try discriminate;
    try (apply N.eqb_eq in H; now subst); inversion H; apply N.eqb_refl.
Qed.

Lemma whead_mono p w nt : whead p w nt <= whead p w (nt + 1).
Proof. unfold whead. destruct (wq_get p w) as [|[h b] r]; lia. Qed.

Lemma nt_next_le nt o : nt <= nt_next nt o.
Proof. destruct o; simpl; lia. Qed.

Lemma winv_ext tk nt w o : WInv tk nt w -> WInv (tk_ext tk nt o) (nt_next nt o) w.
Proof.
  intros (HK & Hinc & Hmem). split; [now apply kb_ext|]. split; [exact Hinc|].
  intros p t a Hin. destruct (Hmem p t a Hin) as (Hlt & a' & E). split.
  - pose proof (nt_next_le nt o). lia.
  - exists a'. now apply lookup_ext.
Qed.

Lemma granted_to_single tk p t :
  granted_to tk p [Granted t] =
  match tkt_lookup t tk with Some (q, _) => if N.eqb q p then [t] else [] | None => [] end.
Proof. unfold granted_to. simpl. apply app_nil_r. Qed.

Lemma order_step tk nt tkF f outs w l1 w' l' p rest :
  apply_outs14 tk outs w l1 f = Some (w', l') -> WInv tk nt w ->
  (forall t v, tkt_lookup t tk = Some v -> tkt_lookup t tkF = Some v) ->
  incr rest -> (forall t, In t rest -> whead p w' nt <= t) ->
  WInv tk nt w' /\
  incr (granted_to tkF p outs ++ rest) /\
  forall t, In t (granted_to tkF p outs ++ rest) -> whead p w nt <= t.
Proof.
  intros Eap HW Hext Hi Hb.
  destruct (apply_order tk f nt _ _ _ _ _ Eap HW) as (HW' & Hlk & Hp).
  destruct (Hp p) as (Hi0 & Hb0 & Hh).
  rewrite (granted_to_ext tk tkF p outs Hext Hlk).
  split; [exact HW'|]. split.
  - apply incr_app; auto. intros x y Hx Hy. destruct (Hb0 x Hx). specialize (Hb y Hy). lia.
  - intros t Ht. apply in_app_iff in Ht as [Ht|Ht].
    + now destruct (Hb0 t Ht).
    + specialize (Hb t Ht). lia.
Qed.

Lemma monitor14_order mt mp : forall ops obsl tk nt w l,
  monitor14 mt mp tk nt w l ops obsl = true -> WInv tk nt w ->
  forall p, incr (granted_to (tk_build tk nt ops) p (flat_map o_outs obsl)) /\
            forall t, In t (granted_to (tk_build tk nt ops) p (flat_map o_outs obsl)) -> whead p w nt <= t.
Proof.
  induction ops as [|o ops IH]; intros obsl tk nt w l H HW p.
  - destruct obsl; [|discriminate]. simpl. split; [exact I | intros t []].
  - destruct obsl as [|ob obsl]; [discriminate|].
    cbn [tk_build flat_map]. rewrite granted_to_app.
    pose proof (winv_ext tk nt w o HW) as HW0.
    assert (Hext : forall t v, tkt_lookup t (tk_ext tk nt o) = Some v ->
                               tkt_lookup t (tk_build (tk_ext tk nt o) (nt_next nt o) ops) = Some v).
    { intros t v E. apply tk_build_lookup; [apply HW0 | exact E]. }
    destruct o as [p0 a|p0 a|p0]; cbn [monitor14] in H.
    + (* AllocateBlockMemory *)
      cbn [tk_ext nt_next] in *.
      destruct (wq_get p0 w) as [|hd tl] eqn:Ewq.
      * destruct (fits (led_sum l) a mt && fits (led_get p0 l) a mp).
        -- apply andb_true_iff in H as [H1 H2]. apply andb_true_iff in H1 as [Houts _].
           apply andb_true_iff in H2 as [_ Hrec].
           apply (list_eqb_eq out_eqb out_eqb_eq) in Houts. rewrite Houts.
           destruct (IH _ _ _ _ _ Hrec HW0 p) as [Hi Hb].
           rewrite granted_to_single.
           assert (El : tkt_lookup nt ((nt, (p0, a)) :: tk) = Some (p0, a)) by (simpl; now rewrite N.eqb_refl).
           rewrite (Hext _ _ El).
           destruct (N.eqb_spec p0 p) as [->|Hn].
           ++ assert (Eh : forall n, whead p w n = n) by (intro n; unfold whead; now rewrite Ewq).
              rewrite Eh. split.
              ** simpl. split; [|exact Hi]. intros y Hy. specialize (Hb y Hy). rewrite Eh in Hb. lia.
              ** intros t [<-|Ht]; [lia|]. specialize (Hb t Ht). rewrite Eh in Hb. lia.
           ++ simpl app. split; [exact Hi|]. intros t Ht. specialize (Hb t Ht).
              pose proof (whead_mono p w nt). lia.
        -- apply andb_true_iff in H as [H1 H2]. apply andb_true_iff in H1 as [Houts _].
           apply andb_true_iff in H2 as [_ Hrec].
           apply (list_eqb_eq out_eqb out_eqb_eq) in Houts. rewrite Houts. simpl app.
           cbn [app] in Hrec.
           assert (HW1 : WInv ((nt, (p0, a)) :: tk) (nt + 1) (wq_set p0 [(nt, a)] w)).
           { destruct HW0 as (HK & Hinc & Hmem). split; [exact HK|]. split.
             - intro q. rewrite wq_get_set. destruct (N.eqb q p0); [|apply Hinc].
               simpl. split; [intros y [] | exact I].
             - intros q t b. rewrite wq_get_set. destruct (N.eqb_spec q p0) as [->|]; [|apply Hmem].
               intros [E|[]]. inversion E; subst. split; [lia|]. exists b. simpl. now rewrite N.eqb_refl. }
           destruct (IH _ _ _ _ _ Hrec HW1 p) as [Hi Hb]. split; [exact Hi|].
           intros t Ht. specialize (Hb t Ht). unfold whead in *. rewrite wq_get_set in Hb.
           destruct (N.eqb_spec p p0) as [->|].
           ++ rewrite Ewq. exact Hb.
           ++ destruct (wq_get p w) as [|[h b] r]; lia.
      * apply andb_true_iff in H as [H1 H2]. apply andb_true_iff in H1 as [Houts _].
        apply andb_true_iff in H2 as [_ Hrec].
        apply (list_eqb_eq out_eqb out_eqb_eq) in Houts. rewrite Houts. simpl app.
        assert (HW1 : WInv ((nt, (p0, a)) :: tk) (nt + 1) (wq_set p0 ((hd :: tl) ++ [(nt, a)]) w)).
        { destruct HW as (_ & Hinc0 & Hmem0). destruct HW0 as (HK & Hinc & Hmem). split; [exact HK|]. split.
          - intro q. rewrite wq_get_set. destruct (N.eqb q p0); [|apply Hinc].
            rewrite map_app. apply incr_app.
            + specialize (Hinc p0). now rewrite Ewq in Hinc.
            + simpl. split; [intros y [] | exact I].
            + intros x y Hx [<-|[]]. apply in_map_iff in Hx as ([u b] & <- & Hu). simpl.
              apply (Hmem0 p0 u b). now rewrite Ewq.
          - intros q t b. rewrite wq_get_set. destruct (N.eqb_spec q p0) as [->|]; [|apply Hmem].
            intro Hin. apply in_app_iff in Hin as [Hin|[E|[]]].
            + apply (Hmem p0 t b). now rewrite Ewq.
            + inversion E; subst. split; [lia|]. exists b. simpl. now rewrite N.eqb_refl. }
        destruct (IH _ _ _ _ _ Hrec HW1 p) as [Hi Hb]. split; [exact Hi|].
        intros t Ht. specialize (Hb t Ht). unfold whead in *. rewrite wq_get_set in Hb.
        destruct (N.eqb_spec p p0) as [->|].
        -- rewrite Ewq. exact Hb.
        -- destruct (wq_get p w) as [|[h b] r]; lia.
    + (* ReleaseBlockMemory *)
      cbn [tk_ext nt_next] in *. destruct (o_err ob).
      * apply andb_true_iff in H as [Houts Hrec].
        apply (list_eqb_eq out_eqb out_eqb_eq) in Houts. rewrite Houts. simpl app. eapply IH; eauto.
      * match type of H with context [apply_outs14 tk ?outs w ?l1 None] =>
          destruct (apply_outs14 tk outs w l1 None) as [[w' l']|] eqn:Eap; [|discriminate] end.
        apply andb_true_iff in H as [_ Hrec].
        destruct (apply_order tk None nt _ _ _ _ _ Eap HW) as (HW' & _ & _).
        destruct (IH _ _ _ _ _ Hrec HW' p) as [Hi Hb].
        destruct (order_step tk nt _ None _ _ _ _ _ p _ Eap HW Hext Hi Hb) as (_ & A1 & A2). auto.
    + (* ReleasePeerMemory *)
      cbn [tk_ext nt_next] in *. destruct (o_err ob).
      * apply andb_true_iff in H as [Houts Hrec].
        apply (list_eqb_eq out_eqb out_eqb_eq) in Houts. rewrite Houts. simpl app. eapply IH; eauto.
      * match type of H with context [apply_outs14 tk ?outs w ?l1 (Some p0)] =>
          destruct (apply_outs14 tk outs w l1 (Some p0)) as [[w' l']|] eqn:Eap; [|discriminate] end.
        apply andb_true_iff in H as [H1 Hrec]. apply andb_true_iff in H1 as [_ _].
        destruct (apply_order tk (Some p0) nt _ _ _ _ _ Eap HW) as (HW' & _ & _).
        destruct (IH _ _ _ _ _ Hrec HW' p) as [Hi Hb].
        destruct (order_step tk nt _ (Some p0) _ _ _ _ _ p _ Eap HW Hext Hi Hb) as (_ & A1 & A2). auto.
Qed.

Lemma winv_init : WInv [] 0 [].
Proof.
  split; [intros t v E; discriminate|]. split; [intro p; exact I | intros p t a []].
Qed.

(* Every history accepted by the monitor — in particular every history the check observes on the
   implementation — lists, for every peer, the granted tickets in strictly increasing request order. *)
Theorem monitor_C14_grants_in_request_order : forall mt mp ops obsl,
  monitor_C14 mt mp ops obsl = true ->
  forall p, incr (granted_to (tickets_of ops) p (flat_map o_outs obsl)).
Proof.
  intros mt mp ops obsl H p. exact (proj1 (monitor14_order mt mp ops obsl [] 0 [] [] H winv_init p)).
Qed.

(* ... hence so does every history of the model, for all limits and all scripts *)
Theorem c14_grants_in_request_order : forall mt mp univ ops p,
  incr (granted_to (tickets_of ops) p (flat_map o_outs (fst (run univ (init mt mp) ops)))).
Proof.
  intros mt mp univ ops p.
  exact (monitor_C14_grants_in_request_order mt mp ops _ (c14_monitor mt mp univ ops) p).
Qed.
