(* MsgQueueContent.v — C17, third clause, at the level of content: what leaves on the wire leaves in the order
   in which the transactions queued it.  Ghost record of a history: the queue log (every link entry a build
   callback queued, with the topic of the message it was built into, in order) and the wire log (every message
   whose SendMsg returned ok, in order). *)
From Coq Require Import List NArith Bool Lia Arith PeanoNat.
From GS Require Import Base MsgQueue MsgQueueProofs MsgQueue16 MsgQueue16Proofs MsgQueueFifo MsgQueueOrder.
Import ListNotations.
Open Scope N_scope.
Local Arguments N.add : simpl never.
Local Arguments N.sub : simpl never.

Definition qent := (item * N)%type.      (* (request, (link, present?)), topic *)
Definition link_items (ops : list top) : list (link * bool) :=
  flat_map (fun o => match o with TBlock l _ has => [(l, has)] | _ => [] end) ops.
Definition ents (r : req) (t : N) (ops : list top) : list qent := map (fun lk => ((r, lk), t)) (link_items ops).

(* what a label adds to the queue log: the entries of the transaction, if its build callback ran *)
Definition step_qlog (s : mq) (l : qlabel16) : list qent :=
  match attach16 s l, build_of l with
  | Some (r, (t, _)), Some (_, ops) => ents r t ops
  | _, _ => []
  end.

Record c17 := { c_s : mq; c_q : list qent; c_w : list wire }.
Definition c_new : c17 := {| c_s := mq_new; c_q := []; c_w := [] |}.
Definition cstep (c : c17) (l : qlabel16) : c17 :=
  {| c_s := fst (qstep16 (c_s c) l); c_q := c_q c ++ step_qlog (c_s c) l; c_w := c_w c ++ q_wire (snd (qstep16 (c_s c) l)) |}.
Definition crun (ls : list qlabel16) : c17 := fold_left cstep ls c_new.

(* the entries of request r queued into message t, in order *)
Definition qitems (r : req) (t : N) (Q : list qent) : list (link * bool) :=
  map (fun e : qent => snd (fst e)) (filter (fun e : qent => N.eqb (fst (fst e)) r && N.eqb (snd e) t) Q).

(* e1 was queued before e2 *)
Fixpoint before (e1 e2 : qent) (Q : list qent) : Prop :=
  match Q with [] => False | x :: Q' => (x = e1 /\ In e2 Q') \/ before e1 e2 Q' end.

Lemma before_app e1 e2 A B : before e1 e2 (A ++ B) -> before e1 e2 A \/ (In e1 A /\ In e2 B) \/ before e1 e2 B.
Proof.
  induction A as [|x A IH]; cbn [app before]; [auto|]. intros [[-> Hin]|H].
  - apply in_app_or in Hin. destruct Hin as [Hin|Hin]; [left; left; auto | right; left; split; [now left | exact Hin]].
  - destruct (IH H) as [H1|[[H1 H2]|H1]]; [left; right; exact H1 | right; left; split; [now right | exact H2] | right; right; exact H1].
Qed.
Lemma before_in e1 e2 Q : before e1 e2 Q -> In e1 Q /\ In e2 Q.
Proof. induction Q as [|x Q IH]; cbn; [tauto|]. intros [[-> H]|H]; [auto | destruct (IH H); auto]. Qed.

Lemma qitems_app r t A B : qitems r t (A ++ B) = qitems r t A ++ qitems r t B.
Proof. unfold qitems. now rewrite filter_app, map_app. Qed.
Lemma qitems_ents_same r t ops : qitems r t (ents r t ops) = link_items ops.
Proof.
  unfold qitems, ents. induction (link_items ops) as [|lk l IH]; [reflexivity|]. cbn [map filter fst snd].
  rewrite !N.eqb_refl. cbn [andb map fst snd]. now rewrite IH.
Qed.
Lemma qitems_ents_other r t r' t' ops : (r', t') <> (r, t) -> qitems r' t' (ents r t ops) = [].
Proof.
  intro Hne. unfold qitems, ents. induction (link_items ops) as [|lk l IH]; [reflexivity|]. cbn [map filter fst snd].
  destruct (N.eqb_spec r r'), (N.eqb_spec t t'); cbn [andb]; try exact IH. subst. contradiction Hne. reflexivity.
Qed.
Lemma qitems_none r t Q : (forall e, In e Q -> snd e <> t) -> qitems r t Q = [].
Proof.
  intro H. unfold qitems. induction Q as [|e Q IH]; [reflexivity|]. cbn [filter].
  destruct (N.eqb_spec (snd e) t) as [E|_]; [exfalso; apply (H e); [now left | exact E]|].
  rewrite andb_false_r. apply IH. intros x Hx. apply H. now right.
Qed.
Lemma ents_topic r t ops e : In e (ents r t ops) -> snd e = t /\ fst (fst e) = r.
Proof. unfold ents. intro H. apply in_map_iff in H as (lk & <- & _). split; reflexivity. Qed.

(* ---------- what a transaction does to the builder's responses ---------- *)
Definition KeysOK (b : bld) : Prop := NoDup (map fst (b_resp b)).

Lemma apply_op_keys r b o : KeysOK b -> KeysOK (apply_op r b o).
Proof.
  unfold KeysOK. intro H. destruct o as [l size has|size|c]; cbn [apply_op b_resp].
  - apply nodup_aput, H.
  - destruct (aget r (b_resp b)); [exact H | apply nodup_aput, H].
  - destruct (aget r (b_resp b)); [exact H | apply nodup_aput, H].
Qed.
Lemma apply_op_other r b o r' : r' <> r -> aget r' (b_resp (apply_op r b o)) = aget r' (b_resp b).
Proof.
  intro Hne. destruct o as [l size has|size|c]; cbn [apply_op b_resp].
  - apply aget_aput_neq. congruence.
  - destruct (aget r (b_resp b)); [reflexivity | apply aget_aput_neq; congruence].
  - destruct (aget r (b_resp b)); [reflexivity | apply aget_aput_neq; congruence].
Qed.
Lemma apply_op_self r b o :
  aget r (b_resp (apply_op r b o)) = Some (resp_get r b ++ match o with TBlock l _ has => [(l, has)] | _ => [] end).
Proof.
  destruct o as [l size has|size|c]; cbn [apply_op b_resp].
  - apply aget_aput_eq.
  - unfold resp_get. destruct (aget r (b_resp b)) eqn:E; [rewrite E, app_nil_r; reflexivity | rewrite aget_aput_eq; reflexivity].
  - unfold resp_get. destruct (aget r (b_resp b)) eqn:E; [rewrite E, app_nil_r; reflexivity | rewrite aget_aput_eq; reflexivity].
Qed.

Lemma fold_apply_keys r ops : forall b, KeysOK b -> KeysOK (fold_left (apply_op r) ops b).
Proof. induction ops as [|o ops IH]; intros b H; cbn; [exact H | apply IH, apply_op_keys, H]. Qed.
Lemma fold_apply_other r ops r' : r' <> r -> forall b, aget r' (b_resp (fold_left (apply_op r) ops b)) = aget r' (b_resp b).
Proof. intro Hne. induction ops as [|o ops IH]; intro b; cbn; [reflexivity | rewrite IH; apply apply_op_other, Hne]. Qed.
Lemma fold_apply_self r ops : forall b, ops <> [] ->
  aget r (b_resp (fold_left (apply_op r) ops b)) = Some (resp_get r b ++ link_items ops).
Proof.
  induction ops as [|o ops IH]; intros b Hne; [contradiction|]. cbn [fold_left].
  destruct ops as [|o2 ops].
  - cbn [fold_left link_items flat_map]. rewrite app_nil_r. apply apply_op_self.
  - rewrite IH by discriminate. unfold resp_get at 1. rewrite apply_op_self.
    change (link_items (o :: o2 :: ops)) with (match o with TBlock l _ has => [(l, has)] | _ => [] end ++ link_items (o2 :: ops)).
    now rewrite app_assoc.
Qed.
Lemma build_ops_resp r ops b : b_resp (build_ops r ops b) = b_resp (fold_left (apply_op r) ops b).
Proof. reflexivity. Qed.

Lemma last_opt_split bs l : last_opt bs = Some l -> exists pre, bs = pre ++ [l].
Proof.
  induction bs as [|x bs IH]; [discriminate|]. destruct bs as [|y bs].
  - intro E. inversion E. exists []. reflexivity.
  - change (last_opt (x :: y :: bs)) with (last_opt (y :: bs)). intro E. destruct (IH E) as [pre Hp]. exists (x :: pre). now rewrite Hp.
Qed.
Lemma upd_last_snoc f pre (l : bld) : upd_last f (pre ++ [l]) = pre ++ [f l].
Proof.
  induction pre as [|x pre IH]; [reflexivity|]. cbn [app]. destruct (pre ++ [l]) eqn:E; [destruct pre; discriminate|].
  change (upd_last f (x :: b :: l0)) with (x :: upd_last f (b :: l0)). rewrite IH. reflexivity.
Qed.
Lemma incr_app_last lo hi pre t x : incr lo hi (pre ++ [t]) -> In x pre -> x < t.
Proof.
  revert lo. induction pre as [|y pre IH]; intros lo H Hin; [contradiction|]. cbn in H. destruct H as [A B].
  destruct Hin as [->|Hin]; [|eapply IH; eauto].
  assert (In t (pre ++ [t])) by (apply in_or_app; right; now left). destruct (incr_in _ _ _ _ B H). lia.
Qed.

(* ---------- the invariant ---------- *)
Definition pnd := option bld.
Definition plo' (p : pnd) : N := match p with Some b => b_topic b + 1 | None => 0 end.
Definition live (p : pnd) (bs : list bld) (b : bld) : Prop := In b bs \/ p = Some b.
Definition lowlive (p : pnd) (bs : list bld) (nt : N) : N := match p with Some b => b_topic b | None => qlowb bs nt end.
Definition wire_ok (w : wire) (Q : list qent) : Prop :=
  forall r st links, In (r, (st, links)) (w_resps w) -> links = qitems r (w_topic w) Q.

Record J (p : pnd) (bs : list bld) (nt : N) (cl : list req) (Q : list qent) (W : list wire) : Prop := {
  j_incr : incr (plo' p) nt (topics bs);
  j_nt : forall e, In e Q -> snd e < nt;
  j_keys : forall b, live p bs b -> KeysOK b;
  j_some : forall b, live p bs b -> forall r links, aget r (b_resp b) = Some links -> links = qitems r (b_topic b) Q;
  j_none : forall b, In b bs -> forall r, mem_req r cl = false -> aget r (b_resp b) = None -> qitems r (b_topic b) Q = [];
  j_wire : forall w, In w W -> w_topic w < lowlive p bs nt /\ wire_ok w Q;
  j_inv : forall e1 e2, before e1 e2 Q -> snd e2 < snd e1 ->
            (forall b, live p bs b -> b_topic b <> snd e1) /\ (forall w, In w W -> w_topic w <> snd e1)
}.

Lemma j_new : J None [] 0 [] [] [].
Proof. constructor; cbn; try (intros; contradiction); try lia. intros b [[]|H]; discriminate. intros b [[]|H]; discriminate. Qed.

Lemma lowlive_le p bs nt b : incr (plo' p) nt (topics bs) -> live p bs b -> lowlive p bs nt <= b_topic b /\ b_topic b < nt.
Proof.
  intros Hi [Hin|Hp].
  - destruct (incr_in_b _ _ _ _ Hi Hin) as [A B]. split; [|exact B]. destruct p as [b0|]; cbn [lowlive plo'] in *; [|exact A].
    destruct (incr_qlow _ _ _ Hi). lia.
  - subst p. cbn [lowlive plo'] in *. split; [lia|]. apply incr_le in Hi. lia.
Qed.
Lemma lowlive_nt p bs nt : incr (plo' p) nt (topics bs) -> lowlive p bs nt <= nt.
Proof. intro Hi. destruct p as [b|]; cbn [lowlive plo'] in *; [apply incr_le in Hi; lia | apply (incr_qlow _ _ _ Hi)]. Qed.

Lemma J_skip bs nt cl Q W : J None bs nt cl Q W -> J None (skip_empty bs) nt cl Q W.
Proof.
  intros [Hi Hn Hk Hs Ho Hw Hv]. pose proof (skip_empty_qlow _ _ _ Hi) as Hq.
  assert (Hl : forall b, live None (skip_empty bs) b -> live None bs b) by (intros b [H|H]; [left; apply skip_empty_in, H | discriminate]).
  constructor; auto.
  - apply skip_empty_incr, Hi.
  - intros b Hb. apply Ho, skip_empty_in, Hb.
  - intros w Hin. destruct (Hw w Hin) as [A B]. split; [cbn [lowlive] in *; lia | exact B].
  - intros e1 e2 Hb Hlt. destruct (Hv e1 e2 Hb Hlt) as [A B]. split; auto.
Qed.

Lemma J_take b rest nt cl Q W : J None (b :: rest) nt cl Q W -> J (Some b) rest nt cl Q W.
Proof.
  intros [Hi Hn Hk Hs Ho Hw Hv].
  assert (Hl : forall x, live (Some b) rest x -> live None (b :: rest) x) by (intros x [H|H]; [left; now right | inversion H; left; now left]).
  constructor; auto.
  - cbn in Hi. destruct Hi as [_ Hi]. exact Hi.
  - intros x Hx. apply Ho. now right.
  - intros e1 e2 Hb Hlt. destruct (Hv e1 e2 Hb Hlt) as [A B]. split; auto.
Qed.

Lemma J_sent b bs nt cl Q W wb : J (Some b) bs nt cl Q W -> w_topic wb = b_topic b ->
  (forall r st links, In (r, (st, links)) (w_resps wb) -> In (r, links) (b_resp b)) ->
  J None bs nt cl Q (W ++ [wb]).
Proof.
  intros [Hi Hn Hk Hs Ho Hw Hv] Ht Hr. cbn [plo'] in Hi. destruct (incr_qlow _ _ _ Hi) as [Hq _].
  assert (Hl : forall x, live None bs x -> live (Some b) bs x) by (intros x [H|H]; [now left | discriminate]).
  constructor; auto.
  - eapply incr_weaken; [|exact Hi]. cbn. lia.
  - intros w Hin. apply in_app_or in Hin. destruct Hin as [Hin|[<-|[]]].
    + destruct (Hw w Hin) as [A B]. cbn [lowlive] in *. split; [lia | exact B].
    + cbn [lowlive]. split; [lia|]. intros r st links Hin. rewrite Ht. apply (Hs b (or_intror eq_refl)).
      apply in_aget; [apply (Hk b (or_intror eq_refl)) | apply (Hr _ _ _ Hin)].
  - intros e1 e2 Hb Hlt. destruct (Hv e1 e2 Hb Hlt) as [A B]. split; [auto|].
    intros w Hin. apply in_app_or in Hin. destruct Hin as [Hin|[<-|[]]]; [auto|]. rewrite Ht. apply A. now right.
Qed.

Lemma J_error b bs nt cl Q W rs : J (Some b) bs nt cl Q W -> J None (scrubbed_builders rs bs) nt (cl ++ rs) Q W.
Proof.
  intros [Hi Hn Hk Hs Ho Hw Hv]. cbn [plo'] in Hi.
  pose proof (scrubbed_incr _ _ rs _ Hi) as Hi'. destruct (incr_qlow _ _ _ Hi') as [Hq _].
  assert (Hl : forall x, live None (scrubbed_builders rs bs) x -> exists y, In y bs /\ x = fst (scrub_bld rs y)).
  { intros x [H|H]; [apply scrubbed_in, H | discriminate]. }
  constructor; auto.
  - eapply incr_weaken; [|exact Hi']. cbn. lia.
  - intros x Hx. destruct (Hl x Hx) as (y & Hy & ->). unfold KeysOK, scrub_bld. cbn [fst b_resp].
    rewrite (map_fst_filter (fun r => negb (mem_req r rs))). apply NoDup_filter. apply (Hk y). now left.
  - intros x Hx r links Hg. destruct (Hl x Hx) as (y & Hy & ->). rewrite scrub_resp in Hg. rewrite scrub_topic.
    destruct (negb (mem_req r rs)); [|discriminate]. apply (Hs y (or_introl Hy)), Hg.
  - intros x Hx r Hc Hg. destruct (Hl x (or_introl Hx)) as (y & Hy & ->). rewrite scrub_topic. rewrite scrub_resp in Hg.
    rewrite mem_req_app in Hc. apply orb_false_iff in Hc as [Hc1 Hc2]. rewrite Hc2 in Hg. cbn [negb] in Hg. apply (Ho y Hy r Hc1 Hg).
  - intros w Hin. destruct (Hw w Hin) as [A B]. cbn [lowlive] in *. split; [lia | exact B].
  - intros e1 e2 Hb Hlt. destruct (Hv e1 e2 Hb Hlt) as [A B]. split; [|exact B].
    intros x Hx. destruct (Hl x Hx) as (y & Hy & ->). rewrite scrub_topic. apply A. now left.
Qed.

Lemma J_addnew p bs nt cl Q W : J p bs nt cl Q W -> J p (bs ++ [bld_new nt]) (nt + 1) cl Q W.
Proof.
  intros [Hi Hn Hk Hs Ho Hw Hv].
  assert (Hl : forall x, live p (bs ++ [bld_new nt]) x -> live p bs x \/ x = bld_new nt).
  { intros x [H|H]; [apply in_app_or in H; destruct H as [H|[<-|[]]]; [left; now left | now right] | left; now right]. }
  assert (Hz : forall r, qitems r nt Q = []) by (intro r; apply qitems_none; intros e He; specialize (Hn e He); lia).
  constructor.
  - unfold topics. rewrite map_app. cbn. apply incr_snoc, Hi.
  - intros e He. specialize (Hn e He). lia.
  - intros x Hx. destruct (Hl x Hx) as [H| ->]; [auto | constructor].
  - intros x Hx r links Hg. destruct (Hl x Hx) as [H| ->]; [eauto | discriminate].
  - intros x Hx r Hc Hg. apply in_app_or in Hx. destruct Hx as [Hx|[<-|[]]]; [eauto | apply Hz].
  - intros w Hin. destruct (Hw w Hin) as [A B]. split; [|exact B].
    destruct p as [b|]; cbn [lowlive] in *; [exact A | rewrite qlowb_snoc by reflexivity; exact A].
  - intros e1 e2 Hb Hlt. destruct (Hv e1 e2 Hb Hlt) as [A B]. split; [|exact B].
    intros x Hx. destruct (Hl x Hx) as [H| ->]; [auto|]. cbn. destruct (before_in _ _ _ Hb) as [H1 _]. specialize (Hn e1 H1). lia.
Qed.

Lemma qitems_app_other r t r0 t0 ops Q : (r, t) <> (r0, t0) -> qitems r t (Q ++ ents r0 t0 ops) = qitems r t Q.
Proof. intro H. rewrite qitems_app, qitems_ents_other, app_nil_r; [reflexivity | exact H]. Qed.

Lemma J_build p bs nt cl Q W r ops l : J p bs nt cl Q W -> last_opt bs = Some l -> mem_req r cl = false ->
  J p (upd_last (build_ops r ops) bs) nt cl (Q ++ ents r (b_topic l) ops) W.
Proof.
  intros [Hi Hn Hk Hs Ho Hw Hv] Hl Hc. destruct (last_opt_split _ _ Hl) as [pre ->]. rewrite upd_last_snoc.
  set (tL := b_topic l). set (l' := build_ops r ops l).
  assert (Ht' : b_topic l' = tL) by apply build_ops_topic.
  assert (Hpre : forall x, In x pre -> b_topic x < tL).
  { intros x Hx. unfold topics in Hi. rewrite map_app in Hi. cbn [map] in Hi. eapply incr_app_last; [exact Hi | apply in_map, Hx]. }
  assert (Hll : live p (pre ++ [l]) l) by (left; apply in_or_app; right; now left).
  destruct (lowlive_le _ _ _ _ Hi Hll) as [Hlow HtL]. fold tL in Hlow, HtL.
  assert (Hpend : forall b0, p = Some b0 -> b_topic b0 < tL).
  { intros b0 ->. cbn [plo'] in Hi. assert (In tL (topics (pre ++ [l]))) by (apply in_map, in_or_app; right; now left).
    destruct (incr_in _ _ _ _ Hi H). lia. }
  assert (Hlv : forall x, live p (pre ++ [l']) x -> (live p (pre ++ [l]) x /\ b_topic x < tL) \/ x = l').
  { intros x [H|H]; [apply in_app_or in H; destruct H as [H|[<-|[]]]; [left; split; [left; apply in_or_app; now left | apply Hpre, H] | now right]
                    | left; split; [now right | apply Hpend, H]]. }
  assert (Hold : resp_get r l = qitems r tL Q).
  { unfold resp_get. destruct (aget r (b_resp l)) as [old|] eqn:E; [apply (Hs l Hll r old E)|].
    symmetry. apply (Ho l); [apply in_or_app; right; now left | exact Hc | exact E]. }
  constructor.
  - unfold topics in *. rewrite map_app in *. cbn [map] in *. rewrite Ht'. exact Hi.
  - intros e He. apply in_app_or in He. destruct He as [He|He]; [auto|]. destruct (ents_topic _ _ _ _ He) as [-> _]. exact HtL.
  - intros x Hx. destruct (Hlv x Hx) as [[H _]| ->]; [auto|]. unfold KeysOK, l'. rewrite build_ops_resp. apply fold_apply_keys, (Hk l Hll).
  - intros x Hx r' links Hg. destruct (Hlv x Hx) as [[H Hlt]| ->].
    + rewrite qitems_app_other by (intro E; inversion E; lia). eauto.
    + rewrite Ht'. unfold l' in Hg. rewrite build_ops_resp in Hg. destruct (N.eq_dec r' r) as [->|Hne].
      * rewrite qitems_app, qitems_ents_same. destruct ops as [|o ops].
        -- cbn in Hg. cbn [link_items flat_map]. rewrite app_nil_r. apply (Hs l Hll r links Hg).
        -- rewrite fold_apply_self in Hg by discriminate. inversion Hg. rewrite Hold. reflexivity.
      * rewrite fold_apply_other in Hg by exact Hne. rewrite qitems_app_other by (intro E; inversion E; contradiction). apply (Hs l Hll r' links Hg).
  - intros x Hx r' Hc' Hg. apply in_app_or in Hx. destruct Hx as [Hx|[<-|[]]].
    + rewrite qitems_app_other by (intro E; inversion E; specialize (Hpre x Hx); lia). apply (Ho x); [apply in_or_app; now left | exact Hc' | exact Hg].
    + rewrite Ht'. unfold l' in Hg. rewrite build_ops_resp in Hg. destruct (N.eq_dec r' r) as [->|Hne].
      * destruct ops as [|o ops]; [|rewrite fold_apply_self in Hg by discriminate; discriminate].
        cbn in Hg. unfold ents. cbn [link_items flat_map map]. rewrite app_nil_r. apply (Ho l); [apply in_or_app; right; now left | exact Hc' | exact Hg].
      * rewrite fold_apply_other in Hg by exact Hne. rewrite qitems_app_other by (intro E; inversion E; contradiction).
        apply (Ho l); [apply in_or_app; right; now left | exact Hc' | exact Hg].
  - intros w Hin. destruct (Hw w Hin) as [A B]. split.
    + destruct p as [b0|]; cbn [lowlive] in *; [exact A|]. destruct pre; cbn [app qlowb] in *; [rewrite Ht'; exact A | exact A].
    + intros r' st links Hr. rewrite qitems_app_other by (intro E; inversion E; lia). apply (B r' st links Hr).
  - intros e1 e2 Hb Hlt. apply before_app in Hb. destruct Hb as [Hb|[[H1 H2]|Hb]].
    + destruct (Hv e1 e2 Hb Hlt) as [A B]. split; [|exact B]. intros x Hx. destruct (Hlv x Hx) as [[H _]| ->]; [auto|]. rewrite Ht'. apply (A l Hll).
    + destruct (ents_topic _ _ _ _ H2) as [E2 _]. rewrite E2 in Hlt. split.
      * intros x Hx. destruct (Hlv x Hx) as [[_ H]| ->]; [lia | rewrite Ht'; lia].
      * intros w Hin. destruct (Hw w Hin) as [A _]. lia.
    + destruct (before_in _ _ _ Hb) as [H1 H2]. destruct (ents_topic _ _ _ _ H1) as [E1 _], (ents_topic _ _ _ _ H2) as [E2 _]. lia.
Qed.

(* ---------- the model's functions ---------- *)
Definition JS (p : pnd) (s : mq) (Q : list qent) (W : list wire) : Prop := J p (builders s) (next_topic s) (closed s) Q W.
Definition pnd_of (s : mq) : pnd := match ph s with PConnect b _ _ | PSend b _ => Some b | _ => None end.

Definition qlog_build (s : mq) (r : req) (ops : list top) : list qent :=
  if mem_req r (closed s) || done s then [] else ents r (last_topic (fst (do_build s r ops))) ops.

Lemma do_build_J p s r ops Q W : JS p s Q W -> JS p (fst (do_build s r ops)) (Q ++ qlog_build s r ops) W.
Proof.
  unfold JS, qlog_build, last_topic. intro H. unfold do_build.
  destruct (mem_req r (closed s)) eqn:Ec; [cbn; rewrite app_nil_r; exact H|].
  destruct (done s); [cbn; rewrite app_nil_r; exact H|]. cbn [orb].
  set (need_new := match last_opt (builders s) with
                   | None => true
                   | Some last => if ops_size ops =? 0 then false else max_block_size <? b_blk last + ops_size ops end).
  assert (Hbs : let bsnt := if need_new then (builders s ++ [bld_new (next_topic s)], next_topic s + 1) else (builders s, next_topic s) in
                J p (fst bsnt) (snd bsnt) (closed s) Q W /\ exists l, last_opt (fst bsnt) = Some l).
  { destruct need_new eqn:En; cbn [fst snd].
    - split; [apply J_addnew, H | eexists; apply last_opt_snoc].
    - split; [exact H|]. unfold need_new in En. destruct (last_opt (builders s)) as [l|]; [eauto | discriminate]. }
  destruct (if need_new then (builders s ++ [bld_new (next_topic s)], next_topic s + 1) else (builders s, next_topic s)) as [bs nt].
  cbn [fst snd] in Hbs. destruct Hbs as (HJ & l & Hl).
  destruct (upd_last_sum (build_ops r ops) bs l Hl) as [_ Hlast].
  cbn [fst snd builders next_topic closed]. rewrite Hlast, build_ops_topic. apply J_build; assumption.
Qed.

Lemma do_touch_J p s size Q W : JS p s Q W -> JS p (do_touch s size) Q W.
Proof.
  unfold JS, do_touch. intro H. destruct (done s); [exact H|].
  destruct (match last_opt (builders s) with Some last => if size =? 0 then false else max_block_size <? b_blk last + size | None => true end);
    cbn [builders next_topic closed]; [apply J_addnew, H | exact H].
Qed.

Lemma publish_sent_J s b Q W : JS (Some b) s Q W ->
  JS None (fst (publish_sent s b)) Q (W ++ q_wire (snd (publish_sent s b))).
Proof.
  unfold JS, publish_sent. cbn [fst snd set_fields builders next_topic closed q_wire]. intro H.
  eapply J_sent; [exact H | reflexivity|]. cbn [w_resps]. intros r st links Hin.
  apply in_map_iff in Hin as ([r' lk] & E & Hx). cbn [fst snd] in E. inversion E; subst. exact Hx.
Qed.

Lemma publish_error_J s b Q W : JS (Some b) s Q W ->
  JS None (fst (publish_error s b)) Q W /\ q_wire (snd (publish_error s b)) = [].
Proof.
  unfold JS, publish_error. cbn [fst snd set_fields builders next_topic closed q_wire]. intro H.
  split; [|reflexivity]. apply (J_error b _ _ _ _ _ (subs_of b) H).
Qed.

Lemma do_build_wire s r ops : q_wire (snd (do_build s r ops)) = [].
Proof.
  unfold do_build. destruct (mem_req r (closed s)); [reflexivity|]. destruct (done s); [reflexivity|].
  destruct (match last_opt (builders s) with Some last => if ops_size ops =? 0 then false else max_block_size <? b_blk last + ops_size ops | None => true end);
    reflexivity.
Qed.

Local Opaque publish_sent publish_error do_build.

Lemma drain_J : forall fuel s acc Q W, JS None s Q W ->
  JS None (fst (drain fuel s acc)) Q W /\ q_wire (snd (drain fuel s acc)) = q_wire acc.
Proof.
  induction fuel as [|f IH]; intros s acc Q W H; [split; [exact H | reflexivity]|]. cbn [drain].
  pose proof (J_skip _ _ _ _ _ H) as Hs. destruct (skip_empty (builders s)) as [|b rest] eqn:Es.
  - split; [exact Hs | reflexivity].
  - apply J_take in Hs.
    set (s1 := set_fields s rest (alloc s) (has_sender s) (work s) (done s) (ph s) (closed s)).
    assert (H1 : JS (Some b) s1 Q W) by exact Hs.
    destruct (publish_error_J s1 b Q W H1) as [H2 Hw]. destruct (publish_error s1 b) as [s2 o]. cbn [fst snd] in *.
    destruct (IH s2 (out_app acc o) Q W H2) as [A B]. split; [exact A|]. rewrite B, wire_out_app, Hw. apply app_nil_r.
Qed.

Lemma pnd_idle s : ph s = PIdle -> pnd_of s = None.
Proof. unfold pnd_of. now intros ->. Qed.

Lemma run_loop_J : forall fuel s acc Q W, JS None s Q W -> ph s = PIdle ->
  JS (pnd_of (fst (run_loop fuel s acc))) (fst (run_loop fuel s acc)) Q W /\ q_wire (snd (run_loop fuel s acc)) = q_wire acc.
Proof.
  induction fuel as [|f IH]; intros s acc Q W H Hp; [cbn; rewrite (pnd_idle s Hp); auto|].
  cbn [run_loop]. destruct (work s), (done s).
  - cbn. auto.
  - pose proof (J_skip _ _ _ _ _ H) as Hs. destruct (skip_empty (builders s)) as [|b rest] eqn:Es.
    + apply IH; [exact Hs | reflexivity].
    + apply J_take in Hs. destruct (has_sender s); cbn; (split; [exact Hs | apply app_nil_r]).
  - destruct (drain_J (S (length (builders s))) s acc Q W H) as [A B].
    destruct (drain (S (length (builders s))) s acc) as [s1 o]. cbn [fst snd] in *. split; [exact A | exact B].
  - cbn. auto.
Qed.

Local Opaque run_loop drain.

Lemma step_qlog_build s r ops : step_qlog s (L16 (LBuild r ops)) = qlog_build s r ops.
Proof. unfold step_qlog, attach16, qlog_build. cbn [build_of]. destruct (mem_req r (closed s) || done s); reflexivity. Qed.
Lemma step_qlog_buildshut s r ops : step_qlog s (LBuildShut r ops) = qlog_build s r ops.
Proof. unfold step_qlog, attach16, qlog_build. cbn [build_of]. destruct (mem_req r (closed s) || done s); reflexivity. Qed.

Lemma do_build_pnd s r ops : pnd_of (fst (do_build s r ops)) = pnd_of s.
Proof. unfold pnd_of. now rewrite do_build_ph. Qed.

Lemma step_qlog_other s l : build_of (L16 l) = None -> step_qlog s (L16 l) = [].
Proof. unfold step_qlog, attach16. intros ->. reflexivity. Qed.

Lemma qstep_J s l Q W : JS (pnd_of s) s Q W ->
  JS (pnd_of (fst (qstep s l))) (fst (qstep s l)) (Q ++ step_qlog s (L16 l)) (W ++ q_wire (snd (qstep s l))).
Proof.
  intro H. destruct l as [r ops|ok| |tw]; unfold qstep.
  - rewrite step_qlog_build. pose proof (do_build_J _ s r ops Q W H) as H1. pose proof (do_build_pnd s r ops) as Hpe.
    pose proof (do_build_wire s r ops) as Hw. destruct (do_build s r ops) as [s1 o]. cbn [fst snd] in *.
    destruct (ph s1) eqn:Ep; try (cbn [fst snd]; rewrite Hw, app_nil_r, Hpe; exact H1).
    rewrite <- Hpe, (pnd_idle s1 Ep) in H1. destruct (run_loop_J (loop_fuel s1) s1 o _ W H1 Ep) as [A B].
    rewrite B, Hw, app_nil_r. exact A.
  - rewrite step_qlog_other by reflexivity. rewrite app_nil_r.
    unfold pnd_of in H. destruct (ph s) as [|b i initial|b i| |] eqn:Ep;
      try (cbn [fst snd out_nil q_wire]; rewrite app_nil_r; unfold pnd_of; rewrite Ep; exact H).
    + destruct ok.
      * destruct initial; [cbn; rewrite app_nil_r; exact H|].
        destruct (Nat.ltb (S i) max_retries); [cbn; rewrite app_nil_r; exact H|].
        set (s0 := set_fields s (builders s) (alloc s) true (work s) (done s) PIdle (closed s)).
        destruct (publish_error_J s0 b Q W H) as [H1 Hw]. pose proof (publish_error_ph s0 b) as [Hp _].
        destruct (publish_error s0 b) as [s1 o]. cbn [fst snd] in *.
        destruct (run_loop_J (loop_fuel s1) s1 o Q W H1 Hp) as [A B]. rewrite B, Hw, app_nil_r. exact A.
      * set (s0 := set_fields s (builders s) (alloc s) false (work s) (done s) PIdle (closed s)).
        destruct (publish_error_J s0 b Q W H) as [H1 Hw].
        destruct (publish_error s0 b) as [s1 o]. cbn [fst snd] in *.
        set (s2 := set_fields s1 (builders s1) (alloc s1) false (work s1) (if initial then true else done s1) PIdle (closed s1)).
        destruct (run_loop_J (loop_fuel s2) s2 o Q W H1 eq_refl) as [A B]. rewrite B, Hw, app_nil_r. exact A.
    + destruct ok.
      * set (s0 := set_fields s (builders s) (alloc s) true (work s) (done s) PIdle (closed s)).
        pose proof (publish_sent_J s0 b Q W H) as H1. pose proof (publish_sent_ph s0 b) as Hp.
        destruct (publish_sent s0 b) as [s1 o]. cbn [fst snd] in *.
        destruct (run_loop_J (loop_fuel s1) s1 o Q _ H1 Hp) as [A B]. rewrite B. exact A.
      * destruct (done s) eqn:Ed.
        -- set (s0 := set_fields s (builders s) (alloc s) false (work s) true PIdle (closed s)).
           destruct (publish_error_J s0 b Q W H) as [H1 Hw]. pose proof (publish_error_ph s0 b) as [Hp _].
           destruct (publish_error s0 b) as [s1 o]. cbn [fst snd] in *.
           destruct (run_loop_J (loop_fuel s1) s1 o Q W H1 Hp) as [A B]. rewrite B, Hw, app_nil_r. exact A.
        -- cbn. rewrite app_nil_r. exact H.
  - rewrite step_qlog_other by reflexivity. rewrite app_nil_r.
    destruct (ph s) eqn:Ep; try (cbn [fst snd out_nil q_wire]; rewrite app_nil_r; unfold pnd_of in *; cbn [ph set_fields]; rewrite Ep in *; exact H).
    rewrite (pnd_idle s Ep) in H.
    destruct (run_loop_J (loop_fuel (set_fields s (builders s) (alloc s) (has_sender s) (work s) true PIdle (closed s)))
               (set_fields s (builders s) (alloc s) (has_sender s) (work s) true PIdle (closed s)) out_nil Q W H eq_refl) as [A B].
    rewrite B. cbn [out_nil q_wire]. rewrite app_nil_r. exact A.
  - rewrite step_qlog_other by reflexivity. rewrite app_nil_r.
    destruct (ph s) eqn:Ep; try (cbn [fst snd out_nil q_wire]; rewrite app_nil_r; exact H).
    unfold pnd_of in H. rewrite Ep in H. destruct tw.
    + set (s1 := set_fields s (builders s) (alloc s) (has_sender s) true false PIdle (closed s)).
      destruct (run_loop_J 1 s1 out_nil Q W H eq_refl) as [A1 B1].
      destruct (run_loop 1 s1 out_nil) as [s2 o]. cbn [fst snd] in *.
      set (s3 := set_fields s2 (builders s2) (alloc s2) (has_sender s2) (work s2) true (ph s2) (closed s2)).
      assert (H3 : JS (pnd_of s3) s3 Q W) by exact A1.
      destruct (ph s3) eqn:Ep3; try (cbn [fst snd]; rewrite B1; cbn [out_nil q_wire]; rewrite app_nil_r; exact H3).
      rewrite (pnd_idle s3 Ep3) in H3. destruct (run_loop_J (loop_fuel s3) s3 o Q W H3 Ep3) as [A B].
      rewrite B, B1. cbn [out_nil q_wire]. rewrite app_nil_r. exact A.
    + set (s1 := set_fields s (builders s) (alloc s) (has_sender s) false true PIdle (closed s)).
      destruct (drain_J (S (length (builders s1))) s1 out_nil Q W H) as [A B].
      destruct (drain (S (length (builders s1))) s1 out_nil) as [s2 o]. cbn [fst snd] in *. rewrite B. cbn [out_nil q_wire]. rewrite app_nil_r. exact A.
Qed.

Lemma qstep16_J s l Q W : JS (pnd_of s) s Q W ->
  JS (pnd_of (fst (qstep16 s l))) (fst (qstep16 s l)) (Q ++ step_qlog s l) (W ++ q_wire (snd (qstep16 s l))).
Proof.
  intro H. destruct l as [l|r ops|sz]; [apply qstep_J, H| |].
  - unfold qstep16. rewrite step_qlog_buildshut.
    pose proof (do_build_J _ s r ops Q W H) as H1. pose proof (do_build_pnd s r ops) as Hpe. pose proof (do_build_wire s r ops) as Hw.
    destruct (do_build s r ops) as [s1 o]. cbn [fst snd] in *. rewrite <- Hpe in H1.
    destruct (ph s1) eqn:Ep; try (cbn [fst snd]; rewrite Hw, app_nil_r; exact H1).
    set (s2 := set_fields s1 (builders s1) (alloc s1) (has_sender s1) true true PSelect (closed s1)).
    assert (H2 : JS (pnd_of s2) s2 (Q ++ qlog_build s r ops) W) by (rewrite (pnd_idle s1 Ep) in H1; exact H1).
    pose proof (qstep_J s2 (LPick false) _ _ H2) as H3. rewrite step_qlog_other, app_nil_r in H3 by reflexivity.
    destruct (qstep s2 (LPick false)) as [s3 o3]. cbn [fst snd] in *. rewrite wire_out_app, Hw. exact H3.
  - unfold qstep16, step_qlog, attach16. cbn [build_of]. rewrite app_nil_r.
    pose proof (do_touch_J _ s sz Q W H) as H1. pose proof (do_touch_ph s sz) as Hp.
    assert (Hpe : pnd_of (do_touch s sz) = pnd_of s) by (unfold pnd_of; now rewrite Hp). rewrite <- Hpe in H1.
    destruct (ph (do_touch s sz)) eqn:Ep; try (cbn [fst snd out_nil q_wire]; rewrite app_nil_r; exact H1).
    rewrite (pnd_idle _ Ep) in H1. destruct (run_loop_J (loop_fuel (do_touch s sz)) (do_touch s sz) out_nil Q W H1 Ep) as [A B].
    rewrite B. cbn [out_nil q_wire]. rewrite app_nil_r. exact A.
Qed.

Lemma crun_J ls : let c := crun ls in JS (pnd_of (c_s c)) (c_s c) (c_q c) (c_w c).
Proof.
  unfold crun. assert (H : forall ls c, JS (pnd_of (c_s c)) (c_s c) (c_q c) (c_w c) ->
                                      JS (pnd_of (c_s (fold_left cstep ls c))) (c_s (fold_left cstep ls c)) (c_q (fold_left cstep ls c)) (c_w (fold_left cstep ls c))).
  { induction ls0 as [|l ls0 IH]; intros c Hc; [exact Hc|]. cbn [fold_left]. apply IH. cbn [cstep c_s c_q c_w]. apply qstep16_J, Hc. }
  apply H. exact j_new.
Qed.

Lemma crun_wire_topics : forall ls c, map w_topic (c_w (fold_left cstep ls c)) = map w_topic (c_w c) ++ wire_topics (c_s c) ls.
Proof.
  induction ls as [|l ls IH]; intro c; cbn [fold_left wire_topics]; [now rewrite app_nil_r|].
  rewrite IH. cbn [cstep c_w c_s]. rewrite map_app, <- app_assoc. reflexivity.
Qed.

(* Messages to a peer leave in the order they were queued, at the level of content.  For every history:
   (1) the messages leave in the order in which they were started (topics strictly increasing);
   (2) what a message carries for a request is exactly what that request's transactions queued into that message,
       in the order they queued it;
   (3) a link entry queued before another one but into a LATER message never leaves at all (its message, or its
       request's part of it, was scrubbed after a failure): so among the entries that do leave, one queued earlier
       is in the same or an earlier message — nothing overtakes. *)
Theorem c17_fifo_content : forall ls, let c := crun ls in
  incr_from 0 (map w_topic (c_w c)) /\
  (forall w r st links, In w (c_w c) -> In (r, (st, links)) (w_resps w) -> links = qitems r (w_topic w) (c_q c)) /\
  (forall e1 e2, before e1 e2 (c_q c) -> snd e2 < snd e1 -> forall w, In w (c_w c) -> w_topic w <> snd e1).
Proof.
  intros ls c. pose proof (crun_J ls) as HJ. cbn zeta in HJ. fold c in HJ. destruct HJ as [Hi Hn Hk Hs Ho Hw Hv]. split; [|split].
  - unfold c, crun. rewrite crun_wire_topics. cbn [c_new c_w c_s map app]. apply c17_fifo_wire.
  - intros w r st links Hin Hr. destruct (Hw w Hin) as [_ B]. apply (B r st links Hr).
  - intros e1 e2 Hb Hlt. destruct (Hv e1 e2 Hb Hlt) as [_ B]. exact B.
Qed.
Print Assumptions c17_fifo_content.

(* the seeded packing (a later 100K block put into the first pending message) is excluded by (3)+(2): in the
   model the block goes behind the second 300K block *)
Example fifo_content_example :
  let c := crun [L16 (LBuild 1 [TBlock 1 10 true]); L16 (LNet true);
                 L16 (LBuild 1 [TBlock 2 300000 true]); L16 (LBuild 2 [TBlock 3 300000 true]); L16 (LBuild 3 [TBlock 4 100000 true]);
                 L16 (LNet true); L16 (LNet true); L16 (LNet true)] in
  (map (fun w => (w_topic w, map (fun x => (fst x, snd (snd x))) (w_resps w))) (c_w c), map (fun e => (fst (fst e), snd e)) (c_q c)) =
  ([(0, [(1, [(1, true)])]); (1, [(1, [(2, true)])]); (2, [(2, [(3, true)]); (3, [(4, true)])])],
   [(1, 0); (1, 1); (2, 2); (3, 2)]).
Proof. vm_compute. reflexivity. Qed.
