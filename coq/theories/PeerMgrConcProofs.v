(* PeerMgrConcProofs.v — C17 with concurrent senders: a group run is a run of PeerMgr labels, so the
   invariants of PeerMgrProofs hold in every state it reaches; all concurrent callers of one group are
   handed the same process. *)
From Coq Require Import List NArith Bool Lia.
From GS Require Import Base PeerMgr PeerMgrProofs PeerMgrConc.
Import ListNotations.
Open Scope N_scope.

Lemma prun_app : forall a s b, prun_pm s (a ++ b) = prun_pm (prun_pm s a) b.
Proof. induction a as [|l a IH]; intros s b; simpl; [reflexivity | apply IH]. Qed.

Lemma goc_n_run : forall k p s, fst (goc_n k p s) = prun_pm s (repeat (LGetProcess p) k).
Proof.
  induction k as [|k IH]; intros p s; simpl; [reflexivity|].
  destruct (get_or_create p s) as [s1 [rc q]] eqn:E.
  specialize (IH p s1). destruct (goc_n k p s1) as [s2 qs]. simpl in *. exact IH.
Qed.

Lemma opt_step_run s w : opt_step s w = prun_pm s (match w with Some l => [l] | None => [] end).
Proof. destruct w; reflexivity. Qed.

Lemma gstep_expand s g : fst (gstep s g) = prun_pm s (gexpand s g).
Proof.
  destruct g as [l|p k w]; simpl.
  - destruct (pstep s l); reflexivity.
  - destruct (aget p (table s)) as [[rc q]|].
    + simpl. apply opt_step_run.
    + rewrite goc_n_run, prun_app, <- opt_step_run. reflexivity.
Qed.

Lemma grun_prun : forall gs s, exists ls, grun s gs = prun_pm s ls.
Proof.
  induction gs as [|g r IH]; intro s; simpl.
  - exists []. reflexivity.
  - destruct (IH (fst (gstep s g))) as [ls Hls]. exists (gexpand s g ++ ls).
    rewrite prun_app, <- gstep_expand. exact Hls.
Qed.

Lemma grun_inv gs : PMInv (grun pm_new gs).
Proof. destruct (grun_prun gs pm_new) as [ls ->]. apply prun_inv, PMInv_new. Qed.

(* at most one live process per peer in every state reachable with concurrent sender groups *)
Lemma c17_conc_one_live gs p q1 q2 :
  let s := grun pm_new gs in
  aget q1 (queues s) = Some (p, QLive) -> aget q2 (queues s) = Some (p, QLive) -> q1 = q2.
Proof.
  intros s A B. unfold s in *. destruct (grun_prun gs pm_new) as [ls E]. rewrite E in A, B.
  exact (c17_one_live ls p q1 q2 A B).
Qed.

Lemma get_or_create_hit p s rc q : aget p (table s) = Some (rc, q) -> get_or_create p s = (s, (rc, q)).
Proof. intro E. unfold get_or_create. rewrite E. reflexivity. Qed.

Lemma goc_n_hit : forall k p s rc q, aget p (table s) = Some (rc, q) -> goc_n k p s = (s, repeat q k).
Proof.
  induction k as [|k IH]; intros p s rc q E; simpl; [reflexivity|].
  rewrite (get_or_create_hit _ _ _ _ E), (IH _ _ _ _ E). reflexivity.
Qed.

Lemma goc_n_same k p s :
  exists q, snd (goc_n k p s) = repeat q k /\
            (k <> O -> exists rc, aget p (table (fst (goc_n k p s))) = Some (rc, q)).
Proof.
  destruct k as [|k]; [exists 0; split; [reflexivity | congruence]|].
  simpl. destruct (get_or_create p s) as [s1 [rc q]] eqn:E.
  assert (Ht : aget p (table s1) = Some (rc, q)).
  { unfold get_or_create in E. destruct (aget p (table s)) as [[rc0 q0]|] eqn:E0.
    - inversion E; subst. exact E0.
    - inversion E; subst. simpl. apply aget_aput_eq. }
  rewrite (goc_n_hit k p s1 rc q Ht). exists q. simpl. split; [reflexivity|]. intros _. exists rc. exact Ht.
Qed.

(* all concurrent callers of one group are handed the same process; when the peer had no entry it is
   the one the table holds afterwards *)
Lemma c17_conc_same_process gs p k w :
  let s := grun pm_new gs in
  exists q, snd (gstep s (GConc p k w)) = repeat q k /\
    (aget p (table s) = None -> k <> O ->
     exists rc, aget p (table (fst (gstep s (GConc p k w)))) = Some (rc, q)).
Proof.
  intro s. simpl. destruct (aget p (table s)) as [[rc q]|] eqn:E.
  - exists q. split; [reflexivity | discriminate].
  - destruct (goc_n_same k p (opt_step s w)) as (q & Hq & Ht). exists q. split; [exact Hq|].
    intros _ Hk. exact (Ht Hk).
Qed.
