(* MsgQueueProofs.v — C15: the peer's accounted memory always equals the block bytes of the queued
   builders plus those of the message in flight; C16: structural facts about reports. *)
From Coq Require Import List NArith Bool Lia.
From GS Require Import Base MsgQueue.
Import ListNotations.
Open Scope N_scope.
Local Arguments N.add : simpl never.
Local Arguments N.sub : simpl never.

Definition qsum (bs : list bld) : N := fold_right (fun b acc => b_blk b + acc) 0 bs.
Definition blocks_sum (l : list (link * N)) : N := fold_right (fun x acc => snd x + acc) 0 l.

(* a builder never carries more block bytes in its map than it has been charged for *)
Definition BInv (b : bld) : Prop :=
  blocks_sum (b_blocks b) <= b_blk b /\ (bld_empty b = true -> b_blk b = 0).

Definition AccInv (s : mq) : Prop :=
  Forall BInv (builders s) /\
  match ph s with
  | PExited => alloc s = 0
  | PConnect b _ _ | PSend b _ => BInv b /\ alloc s = qsum (builders s) + b_blk b
  | _ => alloc s = qsum (builders s)
  end.

Lemma qsum_app a b : qsum (a ++ b) = qsum a + qsum b.
Proof. induction a as [|x a IH]; simpl; [lia | rewrite IH; lia]. Qed.

Lemma blocks_sum_aput l size m : blocks_sum (aput l size m) <= blocks_sum m + size.
Proof.
  induction m as [|[k v] m IH]; simpl; [lia|]. destruct (N.eqb l k); simpl; lia.
Qed.

Lemma blocks_sum_filter f (m : list (link * N)) : blocks_sum (filter f m) <= blocks_sum m.
Proof. induction m as [|x m IH]; simpl; [lia|]. destruct (f x); simpl; lia. Qed.

(* one operation of a transaction *)
Lemma apply_op_blk r b o :
  b_blk (apply_op r b o) = b_blk b + match o with TBlock _ size true => size | _ => 0 end.
Proof. destruct o as [l size has|size|c]; simpl; [destruct has|..]; lia. Qed.

Lemma aput_not_nil {V} k (v : V) m : aput k v m <> [].
Proof. destruct m as [|[q w] m]; simpl; [discriminate|]. destruct (N.eqb k q); discriminate. Qed.

Lemma aget_some_not_nil {V} k (v : V) m : aget k m = Some v -> m <> [].
Proof. destruct m; [discriminate | discriminate]. Qed.

Lemma apply_op_resp r b o : b_resp (apply_op r b o) <> [].
Proof.
  destruct o as [l size has|size|c]; simpl.
  - apply aput_not_nil.
  - destruct (aget r (b_resp b)) eqn:E; [eapply aget_some_not_nil; eauto | apply aput_not_nil].
  - destruct (aget r (b_resp b)) eqn:E; [eapply aget_some_not_nil; eauto | apply aput_not_nil].
Qed.

Lemma not_empty_of_resp b : b_resp b <> [] -> bld_empty b = false.
Proof. unfold bld_empty. destruct (b_blocks b), (b_resp b); auto. contradiction. Qed.

Lemma apply_op_binv r b o : BInv b -> BInv (apply_op r b o).
Proof.
  intros [H1 H2]. split.
  - destruct o as [l size has|size|c]; simpl; auto. destruct has; auto.
    pose proof (blocks_sum_aput l size (b_blocks b)). lia.
  - rewrite (not_empty_of_resp _ (apply_op_resp r b o)). discriminate.
Qed.

Lemma fold_apply_blk r ops : forall b, b_blk (fold_left (apply_op r) ops b) = b_blk b + ops_blocks ops.
Proof.
  induction ops as [|o ops IH]; intro b; simpl; [lia|]. rewrite IH, apply_op_blk.
  destruct o as [l size [|]|size|c]; lia.
Qed.
Lemma fold_apply_binv r ops : forall b, BInv b -> BInv (fold_left (apply_op r) ops b).
Proof. induction ops as [|o ops IH]; intros b H; simpl; [exact H | apply IH, apply_op_binv, H]. Qed.

Lemma build_ops_blk r ops b : b_blk (build_ops r ops b) = b_blk b + ops_blocks ops.
Proof. unfold build_ops. simpl. apply fold_apply_blk. Qed.
Lemma build_ops_binv r ops b : BInv b -> BInv (build_ops r ops b).
Proof. unfold build_ops. intro H. pose proof (fold_apply_binv r ops b H) as [A B]. split; [exact A | exact B]. Qed.

Lemma ops_blocks_le ops : ops_blocks ops <= ops_size ops.
Proof. induction ops as [|o ops IH]; simpl; [lia|]. destruct o as [l size [|]|size|c]; simpl; lia. Qed.

(* updating the last builder *)
Lemma upd_last_sum f bs l : last_opt bs = Some l ->
  qsum (upd_last f bs) + b_blk l = qsum bs + b_blk (f l) /\ last_opt (upd_last f bs) = Some (f l).
Proof.
  induction bs as [|b bs IH]; [discriminate|]. destruct bs as [|b2 bs].
  - intro E. inversion E; subst. simpl. split; [lia | reflexivity].
  - intro E. change (last_opt (b :: b2 :: bs)) with (last_opt (b2 :: bs)) in E. destruct (IH E) as [A B].
    change (upd_last f (b :: b2 :: bs)) with (b :: upd_last f (b2 :: bs)).
    split; [change (qsum (b :: upd_last f (b2 :: bs))) with (b_blk b + qsum (upd_last f (b2 :: bs)));
            change (qsum (b :: b2 :: bs)) with (b_blk b + qsum (b2 :: bs)); lia|].
    destruct (upd_last f (b2 :: bs)) eqn:Eu; [destruct bs; discriminate | exact B].
Qed.
Lemma upd_last_forall (P : bld -> Prop) f bs : (forall b, P b -> P (f b)) -> Forall P bs -> Forall P (upd_last f bs).
Proof.
  intros Hf. induction bs as [|b bs IH]; intro H; simpl; [constructor|]. inversion H; subst.
  destruct bs as [|b2 bs]; [constructor; auto | constructor; auto].
Qed.
Lemma last_opt_snoc bs b : last_opt (bs ++ [b]) = Some b.
Proof. induction bs as [|x bs IH]; simpl; [reflexivity|]. destruct (bs ++ [b]) eqn:E; [destruct bs; discriminate | exact IH]. Qed.
Lemma last_opt_none bs : last_opt bs = None -> bs = [].
Proof.
  induction bs as [|b bs IH]; [reflexivity|]. destruct bs as [|b2 bs]; [discriminate|].
  intro H. change (last_opt (b :: b2 :: bs)) with (last_opt (b2 :: bs)) in H. specialize (IH H). discriminate.
Qed.

(* scrubbing *)
Lemma scrub_bld_spec rs b : BInv b ->
  let '(b', freed) := scrub_bld rs b in
  BInv b' /\ b_blk b' + freed = b_blk b /\ (bld_empty b' = true -> b_blk b' = 0).
Proof.
  unfold scrub_bld. intros [H _]. set (kept := scrub_kept rs b).
  assert (Hk : blocks_sum kept <= blocks_sum (b_blocks b)) by (unfold kept, scrub_kept; apply blocks_sum_filter).
  change (fold_right (fun x acc => snd x + acc) 0 kept) with (blocks_sum kept).
  assert (He : forall rsp st ex sb, bld_empty {| b_topic := b_topic b; b_blocks := kept; b_blk := blocks_sum kept;
                            b_resp := rsp; b_status := st; b_ext := ex; b_subs := sb |} = true -> blocks_sum kept = 0).
  { intros. unfold bld_empty in H0. simpl in H0. destruct kept; [reflexivity | discriminate]. }
  split; [split; [simpl; lia | apply He]|]. split; [simpl; lia | apply He].
Qed.

Lemma scrub_all rs bs : Forall BInv bs ->
  let scrubbed := map (scrub_bld rs) bs in
  let freed := fold_right (fun x acc => snd x + acc) 0 scrubbed in
  let bs' := filter (fun x => negb (bld_empty x)) (map fst scrubbed) in
  Forall BInv bs' /\ qsum bs' + freed = qsum bs.
Proof.
  induction bs as [|b bs IH]; intro H; [simpl; split; [constructor | reflexivity]|].
  inversion H; subst. destruct (IH H3) as [A B]. pose proof (scrub_bld_spec rs b H2) as Hs.
  cbn [map].
  destruct (scrub_bld rs b) as [b' fr]. destruct Hs as (Hb & Hsum & Hemp).
  cbn [map fold_right filter fst snd] in *.
  destruct (bld_empty b') eqn:E; cbn [negb].
  - split; [exact A|]. rewrite (Hemp eq_refl) in Hsum. unfold qsum in *. cbn [fold_right] in *. lia.
  - split; [constructor; assumption|]. unfold qsum in *. cbn [fold_right] in *. lia.
Qed.

(* publishError / publishSent for a message whose bytes are still accounted *)
Lemma publish_error_acc s b : Forall BInv (builders s) -> alloc s = qsum (builders s) + b_blk b ->
  let s' := fst (publish_error s b) in
  Forall BInv (builders s') /\ alloc s' = qsum (builders s') /\ ph s' = ph s /\ done s' = done s /\ work s' = work s.
Proof.
  intros HF Ha. unfold publish_error. simpl. destruct (scrub_all (subs_of b) (builders s) HF) as [A B].
  split; [exact A|]. split; [|auto]. lia.
Qed.


(* ---------- the accounting invariant ---------- *)
Definition Acc0 (s : mq) : Prop := Forall BInv (builders s) /\ alloc s = qsum (builders s).

Definition AccInvS (s : mq) : Prop :=
  Forall BInv (builders s) /\
  match ph s with
  | PExited => alloc s = 0 /\ done s = true
  | PConnect b _ _ | PSend b _ => BInv b /\ alloc s = qsum (builders s) + b_blk b
  | _ => alloc s = qsum (builders s)
  end.

Lemma skip_empty_acc bs : Forall BInv bs -> Forall BInv (skip_empty bs) /\ qsum (skip_empty bs) = qsum bs.
Proof.
  induction bs as [|b bs IH]; intro H; simpl; [split; [constructor | reflexivity]|].
  inversion H as [|? ? [Hb1 Hb2] Hr]; subst. destruct (bld_empty b) eqn:E.
  - destruct (IH Hr) as [A B]. split; [exact A|]. rewrite B, (Hb2 eq_refl). lia.
  - split; [exact H | reflexivity].
Qed.

Local Opaque publish_error.

Lemma drain_acc : forall fuel s acc, Acc0 s -> Acc0 (fst (drain fuel s acc)) /\ ph (fst (drain fuel s acc)) = ph s /\
                                               done (fst (drain fuel s acc)) = done s.
Proof.
  induction fuel as [|f IH]; intros s acc [HF Ha]; simpl; [repeat split; auto|].
  destruct (skip_empty_acc _ HF) as [HF' Hq]. destruct (skip_empty (builders s)) as [|b rest] eqn:E.
  - simpl. repeat split; auto. unfold qsum in *. simpl in *. lia.
  - inversion HF' as [|? ? Hb Hr]; subst.
    set (s1 := set_fields s rest (alloc s) (has_sender s) (work s) (done s) (ph s) (closed s)).
    assert (Ha1 : alloc s1 = qsum (builders s1) + b_blk b) by (unfold qsum in *; simpl in *; lia).
    destruct (publish_error_acc s1 b Hr Ha1) as (A & B & C & D & _).
    destruct (publish_error s1 b) as [s2 o] eqn:Ep. simpl in A, B, C, D.
    destruct (IH s2 (out_app acc o) (conj A B)) as (X & Y & Z). repeat split; try apply X; congruence.
Qed.

Local Arguments drain : simpl never.

Lemma run_loop_acc : forall fuel s acc, Acc0 s -> ph s = PIdle -> AccInvS (fst (run_loop fuel s acc)).
Proof.
  induction fuel as [|f IH]; intros s acc [HF Ha] Hp; simpl.
  - split; [exact HF|]. now rewrite Hp.
  - destruct (work s) eqn:Ew, (done s) eqn:Ed; simpl.
    + split; [exact HF | exact Ha].
    + destruct (skip_empty_acc _ HF) as [HF' Hq]. destruct (skip_empty (builders s)) as [|b rest] eqn:E.
      * apply IH; [split; simpl; [constructor | unfold qsum in *; simpl in *; lia] | reflexivity].
      * inversion HF' as [|? ? Hb Hr]; subst. destruct (has_sender s); simpl; (split; [exact Hr | split; [exact Hb | unfold qsum in *; simpl in *; lia]]).
    + pose proof (drain_acc (S (length (builders s))) s acc (conj HF Ha)) as (X & _ & _).
      destruct (drain (S (length (builders s))) s acc) as [s1 o]. simpl in *. split; [apply X | simpl; auto].
    + split; [exact HF | exact Ha].
Qed.

Lemma do_build_acc s r ops : AccInvS s ->
  let s' := fst (do_build s r ops) in AccInvS s' /\ ph s' = ph s.
Proof.
  intros [HF Hph]. unfold do_build.
  destruct (mem_req r (closed s)); [simpl; split; [split; assumption | reflexivity]|].
  destruct (done s) eqn:Ed; [simpl; split; [split; [assumption|]; destruct (ph s); auto; rewrite Ed; exact Hph | reflexivity]|].
  set (size := ops_size ops).
  set (need_new := match last_opt (builders s) with
                   | None => true
                   | Some last => if size =? 0 then false else max_block_size <? b_blk last + size end).
  set (bsnt := if need_new then (builders s ++ [bld_new (next_topic s)], next_topic s + 1) else (builders s, next_topic s)).
  destruct bsnt as [bs nt] eqn:Ebs.
  assert (Hbs : Forall BInv bs /\ qsum bs = qsum (builders s) /\ exists l, last_opt bs = Some l).
  { unfold bsnt in Ebs. destruct need_new eqn:En; inversion Ebs; subst.
    - split; [apply Forall_app; split; [exact HF | constructor; [split; simpl; [lia | reflexivity] | constructor]]|].
      split; [rewrite qsum_app; simpl; lia | exists (bld_new (next_topic s)); apply last_opt_snoc].
    - split; [exact HF|]. split; [reflexivity|]. unfold need_new in En.
      destruct (last_opt (builders s)) as [l|] eqn:El; [eauto | discriminate]. }
  destruct Hbs as (HFb & Hqb & l & Hl).
  destruct (upd_last_sum (build_ops r ops) bs l Hl) as [Hsum Hlast]. rewrite Hlast, Hl.
  rewrite build_ops_blk in *. pose proof (ops_blocks_le ops). fold size in H.
  simpl. split; [|reflexivity]. split; [apply upd_last_forall; [intros; now apply build_ops_binv | exact HFb]|].
  assert (Eadd : b_blk l + ops_blocks ops - b_blk l = ops_blocks ops) by lia. rewrite Eadd.
  destruct (ph s) eqn:Ep; cbn [ph alloc builders MsgQueue.done].
  - lia.
  - destruct Hph as [Hb Ha]. split; [exact Hb | lia].
  - destruct Hph as [Hb Ha]. split; [exact Hb | lia].
  - lia.
  - destruct Hph as [_ Hd]. congruence.
Qed.
