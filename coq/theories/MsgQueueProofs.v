(* MsgQueueProofs.v — C15: the peer's accounted memory always equals the block bytes of the queued
   builders plus those of the message in flight; C16: structural facts about reports. *)
From Coq Require Import List NArith Bool Lia.
From GS Require Import Base MsgQueue.
Import ListNotations.
Open Scope N_scope.
Local Arguments N.add : simpl never.
Local Arguments N.sub : simpl never.

Definition qsum (bs : list bld) : N := fold_right (fun b acc => b_blk b + acc) 0 bs.
Definition blocks_sum (l : list (link * N)) : N := fold_right (fun x acc => snd x + acc) 0 l.

(* a builder never carries more block bytes in its map than it has been charged for *)
Definition BInv (b : bld) : Prop :=
  blocks_sum (b_blocks b) <= b_blk b /\ (bld_empty b = true -> b_blk b = 0).

Definition AccInv (s : mq) : Prop :=
  Forall BInv (builders s) /\
  match ph s with
  | PExited => alloc s = 0
  | PConnect b _ _ | PSend b _ => BInv b /\ alloc s = qsum (builders s) + b_blk b
  | _ => alloc s = qsum (builders s)
  end.

Lemma qsum_app a b : qsum (a ++ b) = qsum a + qsum b.
Proof. induction a as [|x a IH]; simpl; [lia | rewrite IH; lia]. Qed.

Lemma blocks_sum_aput l size m : blocks_sum (aput l size m) <= blocks_sum m + size.
Proof.
  induction m as [|[k v] m IH]; simpl; [lia|]. destruct (N.eqb l k); simpl; lia.
Qed.

Lemma blocks_sum_filter f (m : list (link * N)) : blocks_sum (filter f m) <= blocks_sum m.
Proof. induction m as [|x m IH]; simpl; [lia|]. destruct (f x); simpl; lia. Qed.

(* one operation of a transaction *)
Lemma apply_op_blk r b o :
  b_blk (apply_op r b o) = b_blk b + match o with TBlock _ size true => size | _ => 0 end.
Proof. destruct o as [l size has|size|c]; simpl; [destruct has|..]; lia. Qed.

Lemma aput_not_nil {V} k (v : V) m : aput k v m <> [].
Proof. destruct m as [|[q w] m]; simpl; [discriminate|]. destruct (N.eqb k q); discriminate. Qed.

Lemma aget_some_not_nil {V} k (v : V) m : aget k m = Some v -> m <> [].
Proof. destruct m; [discriminate | discriminate]. Qed.

Lemma apply_op_resp r b o : b_resp (apply_op r b o) <> [].
Proof.
  destruct o as [l size has|size|c]; simpl.
  - apply aput_not_nil.
  - destruct (aget r (b_resp b)) eqn:E; [eapply aget_some_not_nil; eauto | apply aput_not_nil].
  - destruct (aget r (b_resp b)) eqn:E; [eapply aget_some_not_nil; eauto | apply aput_not_nil].
Qed.

Lemma not_empty_of_resp b : b_resp b <> [] -> bld_empty b = false.
Proof. unfold bld_empty. destruct (b_blocks b), (b_resp b); auto. contradiction. Qed.

Lemma apply_op_binv r b o : BInv b -> BInv (apply_op r b o).
Proof.
  intros [H1 H2]. split.
  - destruct o as [l size has|size|c]; simpl; auto. destruct has; auto.
    pose proof (blocks_sum_aput l size (b_blocks b)). lia.
  - rewrite (not_empty_of_resp _ (apply_op_resp r b o)). discriminate.
Qed.

Lemma fold_apply_blk r ops : forall b, b_blk (fold_left (apply_op r) ops b) = b_blk b + ops_blocks ops.
Proof.
  induction ops as [|o ops IH]; intro b; simpl; [lia|]. rewrite IH, apply_op_blk.
  destruct o as [l size [|]|size|c]; lia.
Qed.
Lemma fold_apply_binv r ops : forall b, BInv b -> BInv (fold_left (apply_op r) ops b).
Proof. induction ops as [|o ops IH]; intros b H; simpl; [exact H | apply IH, apply_op_binv, H]. Qed.

Lemma build_ops_blk r ops b : b_blk (build_ops r ops b) = b_blk b + ops_blocks ops.
Proof. unfold build_ops. simpl. apply fold_apply_blk. Qed.
Lemma build_ops_binv r ops b : BInv b -> BInv (build_ops r ops b).
Proof. unfold build_ops. intro H. pose proof (fold_apply_binv r ops b H) as [A B]. split; [exact A | exact B]. Qed.

Lemma ops_blocks_le ops : ops_blocks ops <= ops_size ops.
Proof. induction ops as [|o ops IH]; simpl; [lia|]. destruct o as [l size [|]|size|c]; simpl; lia. Qed.

(* updating the last builder *)
Lemma upd_last_sum f bs l : last_opt bs = Some l ->
  qsum (upd_last f bs) + b_blk l = qsum bs + b_blk (f l) /\ last_opt (upd_last f bs) = Some (f l).
Proof.
  induction bs as [|b bs IH]; [discriminate|]. destruct bs as [|b2 bs].
  - intro E. inversion E; subst. simpl. split; [lia | reflexivity].
  - intro E. change (last_opt (b :: b2 :: bs)) with (last_opt (b2 :: bs)) in E. destruct (IH E) as [A B].
    change (upd_last f (b :: b2 :: bs)) with (b :: upd_last f (b2 :: bs)).
    split; [change (qsum (b :: upd_last f (b2 :: bs))) with (b_blk b + qsum (upd_last f (b2 :: bs)));
            change (qsum (b :: b2 :: bs)) with (b_blk b + qsum (b2 :: bs)); lia|].
    destruct (upd_last f (b2 :: bs)) eqn:Eu; [destruct bs; discriminate | exact B].
Qed.
Lemma upd_last_forall (P : bld -> Prop) f bs : (forall b, P b -> P (f b)) -> Forall P bs -> Forall P (upd_last f bs).
Proof.
  intros Hf. induction bs as [|b bs IH]; intro H; simpl; [constructor|]. inversion H; subst.
  destruct bs as [|b2 bs]; [constructor; auto | constructor; auto].
Qed.
Lemma last_opt_snoc bs b : last_opt (bs ++ [b]) = Some b.
Proof. induction bs as [|x bs IH]; simpl; [reflexivity|]. destruct (bs ++ [b]) eqn:E; [destruct bs; discriminate | exact IH]. Qed.
Lemma last_opt_none bs : last_opt bs = None -> bs = [].
Proof.
  induction bs as [|b bs IH]; [reflexivity|]. destruct bs as [|b2 bs]; [discriminate|].
  intro H. change (last_opt (b :: b2 :: bs)) with (last_opt (b2 :: bs)) in H. specialize (IH H). discriminate.
Qed.

(* scrubbing *)
Lemma scrub_bld_spec rs b : BInv b ->
  let '(b', freed) := scrub_bld rs b in
  BInv b' /\ b_blk b' + freed = b_blk b /\ (bld_empty b' = true -> b_blk b' = 0).
Proof.
  unfold scrub_bld. intros [H _]. set (kept := scrub_kept rs b).
  assert (Hk : blocks_sum kept <= blocks_sum (b_blocks b)) by (unfold kept, scrub_kept; apply blocks_sum_filter).
  change (fold_right (fun x acc => snd x + acc) 0 kept) with (blocks_sum kept).
  assert (He : forall rsp st ex sb, bld_empty {| b_topic := b_topic b; b_blocks := kept; b_blk := blocks_sum kept;
                            b_resp := rsp; b_status := st; b_ext := ex; b_subs := sb |} = true -> blocks_sum kept = 0).
  { intros. unfold bld_empty in H0. simpl in H0. destruct kept; [reflexivity | discriminate]. }
  split; [split; [simpl; lia | apply He]|]. split; [simpl; lia | apply He].
Qed.

Lemma scrub_all rs bs : Forall BInv bs ->
  let scrubbed := map (scrub_bld rs) bs in
  let freed := fold_right (fun x acc => snd x + acc) 0 scrubbed in
  let bs' := filter (fun x => negb (bld_empty x)) (map fst scrubbed) in
  Forall BInv bs' /\ qsum bs' + freed = qsum bs.
Proof.
  induction bs as [|b bs IH]; intro H; [simpl; split; [constructor | reflexivity]|].
  inversion H; subst. destruct (IH H3) as [A B]. pose proof (scrub_bld_spec rs b H2) as Hs.
  cbn [map].
  destruct (scrub_bld rs b) as [b' fr]. destruct Hs as (Hb & Hsum & Hemp).
  cbn [map fold_right filter fst snd] in *.
  destruct (bld_empty b') eqn:E; cbn [negb].
  - split; [exact A|]. rewrite (Hemp eq_refl) in Hsum. unfold qsum in *. cbn [fold_right] in *. lia.
  - split; [constructor; assumption|]. unfold qsum in *. cbn [fold_right] in *. lia.
Qed.

(* publishError / publishSent for a message whose bytes are still accounted *)
Lemma publish_error_acc s b : Forall BInv (builders s) -> alloc s = qsum (builders s) + b_blk b ->
  let s' := fst (publish_error s b) in
  Forall BInv (builders s') /\ alloc s' = qsum (builders s') /\ ph s' = ph s /\ done s' = done s /\ work s' = work s.
Proof.
  intros HF Ha. unfold publish_error. simpl. destruct (scrub_all (subs_of b) (builders s) HF) as [A B].
  split; [exact A|]. split; [|auto]. lia.
Qed.


(* ---------- the accounting invariant ---------- *)
Definition Acc0 (s : mq) : Prop := Forall BInv (builders s) /\ alloc s = qsum (builders s).

Definition AccInvS (s : mq) : Prop :=
  Forall BInv (builders s) /\
  match ph s with
  | PExited => alloc s = 0 /\ done s = true /\ builders s = []
  | PConnect b _ _ | PSend b _ => BInv b /\ alloc s = qsum (builders s) + b_blk b
  | _ => alloc s = qsum (builders s)
  end.

Lemma skip_empty_acc bs : Forall BInv bs -> Forall BInv (skip_empty bs) /\ qsum (skip_empty bs) = qsum bs.
Proof.
  induction bs as [|b bs IH]; intro H; simpl; [split; [constructor | reflexivity]|].
  inversion H as [|? ? [Hb1 Hb2] Hr]; subst. destruct (bld_empty b) eqn:E.
  - destruct (IH Hr) as [A B]. split; [exact A|]. rewrite B, (Hb2 eq_refl). lia.
  - split; [exact H | reflexivity].
Qed.

Local Opaque publish_error.

Lemma drain_acc : forall fuel s acc, Acc0 s -> Acc0 (fst (drain fuel s acc)) /\ ph (fst (drain fuel s acc)) = ph s /\
                                               done (fst (drain fuel s acc)) = done s.
Proof.
  induction fuel as [|f IH]; intros s acc [HF Ha]; simpl; [repeat split; auto|].
  destruct (skip_empty_acc _ HF) as [HF' Hq]. destruct (skip_empty (builders s)) as [|b rest] eqn:E.
  - simpl. repeat split; auto. unfold qsum in *. simpl in *. lia.
  - inversion HF' as [|? ? Hb Hr]; subst.
    set (s1 := set_fields s rest (alloc s) (has_sender s) (work s) (done s) (ph s) (closed s)).
    assert (Ha1 : alloc s1 = qsum (builders s1) + b_blk b) by (unfold qsum in *; simpl in *; lia).
    destruct (publish_error_acc s1 b Hr Ha1) as (A & B & C & D & _).
    destruct (publish_error s1 b) as [s2 o] eqn:Ep. simpl in A, B, C, D.
    destruct (IH s2 (out_app acc o) (conj A B)) as (X & Y & Z). repeat split; try apply X; congruence.
Qed.

Lemma filter_len {A} (f : A -> bool) l : (length (filter f l) <= length l)%nat.
Proof. induction l as [|x l IH]; simpl; [lia|]. destruct (f x); simpl; lia. Qed.

Lemma skip_empty_len bs : (length (skip_empty bs) <= length bs)%nat.
Proof. induction bs as [|b bs IH]; simpl; [lia|]. destruct (bld_empty b); simpl; lia. Qed.

Local Transparent publish_error.
Lemma publish_error_len s b : (length (builders (fst (publish_error s b))) <= length (builders s))%nat.
Proof.
  unfold publish_error. cbn [fst set_fields builders].
  etransitivity; [apply filter_len|]. now rewrite !map_length.
Qed.
Local Opaque publish_error.

Lemma drain_empties : forall fuel s acc, (length (builders s) < fuel)%nat -> builders (fst (drain fuel s acc)) = [].
Proof.
  induction fuel as [|f IH]; intros s acc Hl; [lia|]. simpl.
  pose proof (skip_empty_len (builders s)) as Hk. destruct (skip_empty (builders s)) as [|b rest] eqn:E; [reflexivity|].
  set (s1 := set_fields s rest (alloc s) (has_sender s) (work s) (done s) (ph s) (closed s)).
  pose proof (publish_error_len s1 b) as Hp. destruct (publish_error s1 b) as [s2 o]. cbn [fst] in *.
  apply IH. simpl in Hp, Hk. lia.
Qed.

Local Arguments drain : simpl never.

Lemma run_loop_acc : forall fuel s acc, Acc0 s -> ph s = PIdle -> AccInvS (fst (run_loop fuel s acc)).
Proof.
  induction fuel as [|f IH]; intros s acc [HF Ha] Hp; simpl.
  - split; [exact HF|]. now rewrite Hp.
  - destruct (work s) eqn:Ew, (done s) eqn:Ed; simpl.
    + split; [exact HF | exact Ha].
    + destruct (skip_empty_acc _ HF) as [HF' Hq]. destruct (skip_empty (builders s)) as [|b rest] eqn:E.
      * apply IH; [split; simpl; [constructor | unfold qsum in *; simpl in *; lia] | reflexivity].
      * inversion HF' as [|? ? Hb Hr]; subst. destruct (has_sender s); simpl; (split; [exact Hr | split; [exact Hb | unfold qsum in *; simpl in *; lia]]).
    + pose proof (drain_acc (S (length (builders s))) s acc (conj HF Ha)) as (X & _ & _).
      pose proof (drain_empties (S (length (builders s))) s acc (le_n _)) as Y.
      destruct (drain (S (length (builders s))) s acc) as [s1 o]. simpl in *. split; [apply X | simpl; auto].
    + split; [exact HF | exact Ha].
Qed.

Lemma do_build_acc s r ops : AccInvS s ->
  let s' := fst (do_build s r ops) in AccInvS s' /\ ph s' = ph s.
Proof.
  intros [HF Hph]. unfold do_build.
  destruct (mem_req r (closed s)); [simpl; split; [split; assumption | reflexivity]|].
  destruct (done s) eqn:Ed; [simpl; split; [split; [assumption|]; destruct (ph s); auto; rewrite Ed; exact Hph | reflexivity]|].
  set (size := ops_size ops).
  set (need_new := match last_opt (builders s) with
                   | None => true
                   | Some last => if size =? 0 then false else max_block_size <? b_blk last + size end).
  set (bsnt := if need_new then (builders s ++ [bld_new (next_topic s)], next_topic s + 1) else (builders s, next_topic s)).
  destruct bsnt as [bs nt] eqn:Ebs.
  assert (Hbs : Forall BInv bs /\ qsum bs = qsum (builders s) /\ exists l, last_opt bs = Some l).
  { unfold bsnt in Ebs. destruct need_new eqn:En; inversion Ebs; subst.
    - split; [apply Forall_app; split; [exact HF | constructor; [split; simpl; [lia | reflexivity] | constructor]]|].
      split; [rewrite qsum_app; simpl; lia | exists (bld_new (next_topic s)); apply last_opt_snoc].
    - split; [exact HF|]. split; [reflexivity|]. unfold need_new in En.
      destruct (last_opt (builders s)) as [l|] eqn:El; [eauto | discriminate]. }
  destruct Hbs as (HFb & Hqb & l & Hl).
  destruct (upd_last_sum (build_ops r ops) bs l Hl) as [Hsum Hlast]. rewrite Hlast, Hl.
  rewrite build_ops_blk in *. pose proof (ops_blocks_le ops). fold size in H.
  simpl. split; [|reflexivity]. split; [apply upd_last_forall; [intros; now apply build_ops_binv | exact HFb]|].
  assert (Eadd : b_blk l + ops_blocks ops - b_blk l = ops_blocks ops) by lia. rewrite Eadd.
  destruct (ph s) eqn:Ep; cbn [ph alloc builders MsgQueue.done].
  - lia.
  - destruct Hph as [Hb Ha]. split; [exact Hb | lia].
  - destruct Hph as [Hb Ha]. split; [exact Hb | lia].
  - lia.
  - destruct Hph as (_ & Hd & _). congruence.
Qed.

(* ---------- every label preserves the accounting invariant ---------- *)
Lemma acc_idle s : AccInvS s -> ph s = PIdle -> Acc0 s.
Proof. intros [HF H] Hp. rewrite Hp in H. split; assumption. Qed.

Lemma acc_set_done s : AccInvS s ->
  AccInvS (set_fields s (builders s) (alloc s) (has_sender s) (work s) true (ph s) (closed s)).
Proof.
  intros [HF H]. split; [exact HF|]. cbn [set_fields ph alloc builders MsgQueue.done].
  destruct (ph s); auto. destruct H as (? & ? & ?); auto.
Qed.

Lemma run_loop_from s acc : AccInvS s -> ph s = PIdle -> AccInvS (fst (run_loop (loop_fuel s) s acc)).
Proof. intros H Hp. apply run_loop_acc; [apply acc_idle; assumption | exact Hp]. Qed.

Lemma publish_sent_acc s b : Forall BInv (builders s) -> alloc s = qsum (builders s) + b_blk b ->
  let s' := fst (publish_sent s b) in
  Forall BInv (builders s') /\ alloc s' = qsum (builders s') /\ ph s' = ph s.
Proof. intros HF Ha. unfold publish_sent. simpl. split; [exact HF|]. split; [lia | reflexivity]. Qed.

Local Opaque publish_sent run_loop drain do_build.

Lemma exit_acc s1 : builders s1 = [] ->
  AccInvS (set_fields s1 (builders s1) 0 false false true PExited (closed s1)).
Proof. intro HF. split; [simpl; rewrite HF; constructor | simpl; auto]. Qed.

Lemma qstep_acc s l : AccInvS s -> AccInvS (fst (qstep s l)).
Proof.
  intro H. destruct l as [r ops|ok| |tw]; unfold qstep.
  - (* build *)
    pose proof (do_build_acc s r ops H) as [H1 Hp1]. destruct (do_build s r ops) as [s1 o]. cbn [fst] in *.
    destruct (ph s1) eqn:Ep; try exact H1. apply run_loop_from; assumption.
  - (* network outcome *)
    destruct H as [HF Hph]. destruct (ph s) as [|b i initial|b i| |] eqn:Ep; try (cbn [fst]; split; [exact HF | rewrite Ep; exact Hph]).
    + destruct Hph as [Hb Ha]. destruct ok.
      * destruct initial; [split; [exact HF | simpl; auto]|].
        destruct (Nat.ltb (S i) max_retries); [split; [exact HF | simpl; auto]|].
        set (s0 := set_fields s (builders s) (alloc s) true (work s) (MsgQueue.done s) PIdle (closed s)).
        destruct (publish_error_acc s0 b HF Ha) as (A & B & C & _).
        destruct (publish_error s0 b) as [s1 o]. cbn [fst] in *. apply run_loop_from; [split; [exact A | rewrite C; exact B] | exact C].
      * set (s0 := set_fields s (builders s) (alloc s) false (work s) (MsgQueue.done s) PIdle (closed s)).
        destruct (publish_error_acc s0 b HF Ha) as (A & B & C & _).
        destruct (publish_error s0 b) as [s1 o]. cbn [fst] in *.
        apply run_loop_from; [split; [exact A | exact B] | reflexivity].
    + destruct Hph as [Hb Ha]. destruct ok.
      * set (s0 := set_fields s (builders s) (alloc s) true (work s) (MsgQueue.done s) PIdle (closed s)).
        destruct (publish_sent_acc s0 b HF Ha) as (A & B & C).
        destruct (publish_sent s0 b) as [s1 o]. cbn [fst] in *. apply run_loop_from; [split; [exact A | rewrite C; exact B] | exact C].
      * destruct (MsgQueue.done s) eqn:Ed.
        -- set (s0 := set_fields s (builders s) (alloc s) false (work s) true PIdle (closed s)).
           destruct (publish_error_acc s0 b HF Ha) as (A & B & C & _).
           destruct (publish_error s0 b) as [s1 o]. cbn [fst] in *. apply run_loop_from; [split; [exact A | rewrite C; exact B] | exact C].
        -- split; [exact HF | simpl; auto].
  - (* shutdown *)
    pose proof (acc_set_done s H) as H1. destruct (ph s) eqn:Ep; try exact H1.
    apply run_loop_from; [exact H1 | reflexivity].
  - (* which ready case the select took *)
    destruct (ph s) eqn:Ep; try exact H. destruct H as [HF Ha]. rewrite Ep in Ha. destruct tw.
    + set (s1 := set_fields s (builders s) (alloc s) (has_sender s) true false PIdle (closed s)).
      assert (H1 : Acc0 s1) by (split; assumption).
      pose proof (run_loop_acc 1 s1 out_nil H1 eq_refl) as H2. destruct (run_loop 1 s1 out_nil) as [s2 o]. cbn [fst] in *.
      pose proof (acc_set_done s2 H2) as H3.
      set (s3 := set_fields s2 (builders s2) (alloc s2) (has_sender s2) (work s2) true (ph s2) (closed s2)) in *.
      destruct (ph s3) eqn:Ep3; try exact H3. apply run_loop_from; assumption.
    + set (s1 := set_fields s (builders s) (alloc s) (has_sender s) false true PIdle (closed s)).
      assert (H1 : Acc0 s1) by (split; assumption).
      pose proof (drain_empties (S (length (builders s1))) s1 out_nil (le_n _)) as Y.
      destruct (drain (S (length (builders s1))) s1 out_nil) as [s2 o]. cbn [fst] in *. apply exit_acc, Y.
Qed.

(* ---------- no work signal pending => nothing with content is queued ---------- *)
Local Transparent publish_sent run_loop drain do_build publish_error.

Definition AllEmpty (bs : list bld) : Prop := Forall (fun b => bld_empty b = true) bs.
Definition QInv (s : mq) : Prop := work s = false -> AllEmpty (builders s).

Lemma all_empty_qsum bs : Forall BInv bs -> AllEmpty bs -> qsum bs = 0.
Proof.
  induction bs as [|b bs IH]; intros HF HE; [reflexivity|].
  inversion HF as [|? ? [_ Hb] HF']; inversion HE as [|? ? He HE']; subst.
  simpl. rewrite (Hb He), (IH HF' HE'). reflexivity.
Qed.

Lemma scrub_empty rs b : bld_empty b = true -> bld_empty (fst (scrub_bld rs b)) = true.
Proof.
  unfold bld_empty, scrub_bld, scrub_kept. cbn [fst b_blocks b_resp].
  destruct (b_blocks b); [|discriminate]. destruct (b_resp b); [|discriminate]. reflexivity.
Qed.

Lemma scrub_all_empty rs bs : AllEmpty bs ->
  filter (fun x => negb (bld_empty x)) (map fst (map (scrub_bld rs) bs)) = [].
Proof.
  induction bs as [|b bs IH]; intro H; [reflexivity|]. inversion H; subst.
  cbn [map filter]. rewrite (scrub_empty rs b) by assumption. cbn [negb]. auto.
Qed.

Lemma publish_error_q s b : QInv s -> QInv (fst (publish_error s b)).
Proof.
  unfold QInv, publish_error. cbn [fst set_fields work builders]. intros H Hw.
  rewrite (scrub_all_empty _ _ (H Hw)). constructor.
Qed.
Lemma publish_error_ph s b : ph (fst (publish_error s b)) = ph s /\ done (fst (publish_error s b)) = done s.
Proof. unfold publish_error. cbn. auto. Qed.
Lemma publish_sent_q s b : QInv s -> QInv (fst (publish_sent s b)).
Proof. unfold QInv, publish_sent. cbn. auto. Qed.
Lemma publish_sent_ph s b : ph (fst (publish_sent s b)) = ph s.
Proof. reflexivity. Qed.

Lemma upd_last_forall2 (P : bld -> Prop) f bs l : Forall P bs -> last_opt bs = Some l -> P (f l) -> Forall P (upd_last f bs).
Proof.
  induction bs as [|b bs IH]; intros H Hl Hf; [constructor|]. inversion H; subst. destruct bs as [|b2 bs].
  - inversion Hl; subst. constructor; auto.
  - change (upd_last f (b :: b2 :: bs)) with (b :: upd_last f (b2 :: bs)). constructor; auto.
Qed.

Lemma do_build_q s r ops : QInv s -> QInv (fst (do_build s r ops)).
Proof.
  unfold QInv, do_build. intro H.
  destruct (mem_req r (closed s)); [exact H|]. destruct (done s); [exact H|].
  set (need_new := match last_opt (builders s) with
                   | None => true
                   | Some last => if ops_size ops =? 0 then false else max_block_size <? b_blk last + ops_size ops end).
  assert (Hbs : let bs := fst (if need_new then (builders s ++ [bld_new (next_topic s)], next_topic s + 1) else (builders s, next_topic s)) in
                (AllEmpty (builders s) -> AllEmpty bs) /\ exists l, last_opt bs = Some l).
  { destruct need_new eqn:En; cbn [fst].
    - split; [intro A; apply Forall_app; split; [exact A | constructor; [reflexivity | constructor]] |
              eexists; apply last_opt_snoc].
    - split; [auto|]. unfold need_new in En. destruct (last_opt (builders s)) as [l|]; [eauto | discriminate]. }
  destruct (if need_new then (builders s ++ [bld_new (next_topic s)], next_topic s + 1) else (builders s, next_topic s)) as [bs nt].
  cbn [fst] in Hbs. destruct Hbs as (HA & l & Hl).
  destruct (upd_last_sum (build_ops r ops) bs l Hl) as [_ Hlast]. rewrite Hlast.
  cbn [fst work builders]. destruct (bld_empty (build_ops r ops l)) eqn:Ee; [|discriminate].
  intro Hw. eapply upd_last_forall2; [apply HA, H, Hw | exact Hl | exact Ee].
Qed.

Lemma drain_q fuel s acc : (length (builders s) < fuel)%nat -> QInv (fst (drain fuel s acc)).
Proof. intros Hl _. rewrite (drain_empties fuel s acc Hl). constructor. Qed.

Lemma run_loop_q : forall fuel s acc, QInv s -> QInv (fst (run_loop fuel s acc)).
Proof.
  induction fuel as [|f IH]; intros s acc H; [exact H|]. cbn [run_loop].
  destruct (work s) eqn:Ew, (done s) eqn:Ed.
  - intro Hw. discriminate Hw.
  - destruct (skip_empty (builders s)) as [|b rest] eqn:E.
    + apply IH. intros _. constructor.
    + destruct (has_sender s); cbn [fst]; unfold QInv; cbn [set_fields work builders];
        (destruct rest; [constructor | discriminate]).
  - pose proof (drain_empties (S (length (builders s))) s acc (le_n _)) as Y.
    destruct (drain (S (length (builders s))) s acc) as [s1 o]. cbn [fst] in *. intros _. cbn. rewrite Y. constructor.
  - unfold QInv. cbn. intros _. apply H, Ew.
Qed.

(* the goroutine only parks idle with no signal pending: two turns of the loop always suffice *)
Lemma run_loop_park f s acc : let s' := fst (run_loop (S (S f)) s acc) in ph s' = PIdle -> work s' = false.
Proof.
  cbn [run_loop]. destruct (work s) eqn:Ew, (done s) eqn:Ed.
  - cbn. discriminate.
  - destruct (skip_empty (builders s)) as [|b rest] eqn:E.
    + cbn. reflexivity.
    + destruct (has_sender s); cbn; discriminate.
  - destruct (drain (S (length (builders s))) s acc) as [s1 o]. cbn. discriminate.
  - cbn. reflexivity.
Qed.

Local Opaque publish_sent publish_error drain do_build.

(* the state after a label, as far as the phase is concerned *)
Definition Parked (s : mq) : Prop := QInv s /\ (ph s = PIdle -> work s = false).

Lemma parked_loop s acc : QInv s -> Parked (fst (run_loop (loop_fuel s) s acc)).
Proof. intro H. split; [apply run_loop_q, H | apply run_loop_park]. Qed.

Lemma parked_set_done s : Parked s -> ph s <> PIdle ->
  Parked (set_fields s (builders s) (alloc s) (has_sender s) (work s) true (ph s) (closed s)).
Proof. intros [H1 H2] Hp. split; [exact H1 | cbn; intro; contradiction]. Qed.

Lemma do_build_ph s r ops : ph (fst (do_build s r ops)) = ph s.
Proof.
  Local Transparent do_build. unfold do_build.
  destruct (mem_req r (closed s)); [reflexivity|]. destruct (done s); [reflexivity|].
  destruct (match last_opt (builders s) with Some last => if ops_size ops =? 0 then false else max_block_size <? b_blk last + ops_size ops | None => true end);
    reflexivity.
  Local Opaque do_build.
Qed.

Lemma qstep_parked s l : Parked s -> Parked (fst (qstep s l)).
Proof.
  intros [HQ HP]. destruct l as [r ops|ok| |tw]; unfold qstep.
  - pose proof (do_build_q s r ops HQ) as H1. pose proof (do_build_ph s r ops) as Hp.
    destruct (do_build s r ops) as [s1 o]. cbn [fst] in *.
    destruct (ph s1) eqn:Ep; try (cbn [fst]; split; [exact H1 | rewrite Ep; discriminate]). apply parked_loop, H1.
  - destruct (ph s) as [|b i initial|b i| |] eqn:Ep; try (cbn [fst]; split; [exact HQ | rewrite Ep; exact HP]).
    + destruct ok.
      * destruct initial; [split; [exact HQ | cbn; discriminate]|].
        destruct (Nat.ltb (S i) max_retries); [split; [exact HQ | cbn; discriminate]|].
        set (s0 := set_fields s (builders s) (alloc s) true (work s) (done s) PIdle (closed s)).
        assert (H0 : QInv s0) by exact HQ. pose proof (publish_error_q s0 b H0) as H1.
        destruct (publish_error s0 b) as [s1 o]. cbn [fst] in *. apply parked_loop, H1.
      * set (s0 := set_fields s (builders s) (alloc s) false (work s) (done s) PIdle (closed s)).
        assert (H0 : QInv s0) by exact HQ. pose proof (publish_error_q s0 b H0) as H1.
        destruct (publish_error s0 b) as [s1 o]. cbn [fst] in *. apply parked_loop. exact H1.
    + destruct ok.
      * set (s0 := set_fields s (builders s) (alloc s) true (work s) (done s) PIdle (closed s)).
        assert (H0 : QInv s0) by exact HQ. pose proof (publish_sent_q s0 b H0) as H1.
        destruct (publish_sent s0 b) as [s1 o]. cbn [fst] in *. apply parked_loop, H1.
      * destruct (done s) eqn:Ed.
        -- set (s0 := set_fields s (builders s) (alloc s) false (work s) true PIdle (closed s)).
           assert (H0 : QInv s0) by exact HQ. pose proof (publish_error_q s0 b H0) as H1.
           destruct (publish_error s0 b) as [s1 o]. cbn [fst] in *. apply parked_loop, H1.
        -- split; [exact HQ | cbn; discriminate].
  - destruct (ph s) eqn:Ep; try (cbn [fst]; split; [exact HQ | cbn; discriminate]).
    apply parked_loop. exact HQ.
  - destruct (ph s) eqn:Ep; try (cbn [fst]; split; [exact HQ | rewrite Ep; exact HP]). destruct tw.
    + set (s1 := set_fields s (builders s) (alloc s) (has_sender s) true false PIdle (closed s)).
      assert (H1 : QInv s1) by (intro Hw; discriminate Hw).
      pose proof (run_loop_q 1 s1 out_nil H1) as H2. destruct (run_loop 1 s1 out_nil) as [s2 o]. cbn [fst] in *.
      set (s3 := set_fields s2 (builders s2) (alloc s2) (has_sender s2) (work s2) true (ph s2) (closed s2)).
      assert (H3 : QInv s3) by exact H2.
      destruct (ph s3) eqn:Ep3; try (cbn [fst]; split; [exact H3 | rewrite Ep3; discriminate]). apply parked_loop, H3.
    + set (s1 := set_fields s (builders s) (alloc s) (has_sender s) false true PIdle (closed s)).
      pose proof (drain_empties (S (length (builders s1))) s1 out_nil (le_n _)) as Y.
      destruct (drain (S (length (builders s1))) s1 out_nil) as [s2 o]. cbn [fst] in *.
      split; [intros _; cbn; rewrite Y; constructor | cbn; discriminate].
Qed.

(* ---------- histories ---------- *)
Definition CInv (s : mq) : Prop := AccInvS s /\ Parked s.

Lemma cinv_new : CInv mq_new.
Proof.
  split; [split; [constructor | reflexivity] | split; [intros _; constructor | reflexivity]].
Qed.

Lemma qstep_cinv s l : CInv s -> CInv (fst (qstep s l)).
Proof. intros [A P]. split; [apply qstep_acc, A | apply qstep_parked, P]. Qed.

Lemma qstep_h_cinv s l h : CInv s -> CInv (fst (qstep_h s l h)).
Proof.
  intro H. unfold qstep_h. pose proof (qstep_cinv s l H) as H1. destruct (qstep s l) as [s1 o1]. cbn [fst] in H1.
  destruct (ph s1); try exact H1.
  pose proof (qstep_cinv s1 (LPick h) H1) as H2. destruct (qstep s1 (LPick h)) as [s2 o2]. cbn [fst] in H2.
  destruct (ph s2); try exact H2.
  pose proof (qstep_cinv s2 (LPick h) H2) as H3. destruct (qstep s2 (LPick h)) as [s3 o3]. exact H3.
Qed.

(* the states in which the queue goroutine is parked after each label of a history *)
Fixpoint q_states (s : mq) (ls : list (qlabel * bool)) : list mq :=
  match ls with
  | [] => []
  | (l, h) :: r => let s' := fst (qstep_h s l h) in s' :: q_states s' r
  end.

Lemma q_states_cinv : forall ls s, CInv s -> Forall CInv (q_states s ls).
Proof.
  induction ls as [|[l h] ls IH]; intros s H; cbn [q_states]; [constructor|].
  pose proof (qstep_h_cinv s l h H) as H1. constructor; [exact H1 | apply IH, H1].
Qed.

(* what the invariant says about the accounted memory *)
Lemma cinv_accounting s : CInv s ->
  alloc s = qsum (builders s) + inflight_size (ph s) /\
  (ph s = PIdle -> alloc s = 0 /\ AllEmpty (builders s)) /\
  (ph s = PExited -> alloc s = 0 /\ builders s = []).
Proof.
  intros [[HF Ha] [HQ HP]]. split; [|split].
  - destruct (ph s); cbn [inflight_size];
      [ lia | destruct Ha as [_ Ha]; exact Ha | destruct Ha as [_ Ha]; exact Ha | lia
      | destruct Ha as (Ha & _ & Hb); rewrite Ha, Hb; reflexivity ].
  - intro Hp. pose proof (HQ (HP Hp)) as HE. rewrite Hp in Ha. split; [|exact HE].
    rewrite Ha. apply all_empty_qsum; assumption.
  - intro Hp. rewrite Hp in Ha. destruct Ha as (Ha & _ & Hb). auto.
Qed.

Lemma sum_n_qsum bs : sum_n (map b_blk bs) = qsum bs.
Proof. induction bs as [|b bs IH]; simpl; [reflexivity | rewrite IH; reflexivity]. Qed.

Lemma cinv_mon15 univ s o : CInv s -> mon15_obs (q_observe univ s o) = true.
Proof.
  intro H. destruct (cinv_accounting s H) as (Ha & Hi & He).
  unfold mon15_obs, q_observe. cbn [qo_sizes qo_alloc qo_phase]. rewrite sum_n_qsum.
  destruct (ph s) eqn:Ep; cbn [phase_code inflight_size] in *.
  - destruct (Hi eq_refl) as [H0 _]. rewrite Ha, N.add_0_r. cbn. rewrite N.leb_refl, N.eqb_refl. reflexivity.
  - cbn. rewrite ?andb_true_r. apply N.leb_le. lia.
  - cbn. rewrite ?andb_true_r. apply N.leb_le. lia.
  - cbn. rewrite ?andb_true_r. apply N.leb_le. lia.
  - destruct (He eq_refl) as [H0 Hb]. rewrite Hb, H0. reflexivity.
Qed.

Lemma q_run_mon15 : forall ls univ s, CInv s -> forallb mon15_obs (q_run univ s ls) = true.
Proof.
  induction ls as [|[l h] ls IH]; intros univ s H; cbn [q_run]; [reflexivity|].
  pose proof (qstep_h_cinv s l h H) as H1. destruct (qstep_h s l h) as [s' o]. cbn [fst] in H1.
  cbn [forallb]. rewrite (cinv_mon15 univ s' o H1), (IH univ s' H1). reflexivity.
Qed.

Theorem c15_accounting : forall ls s, In s (q_states mq_new ls) ->
  alloc s = qsum (builders s) + inflight_size (ph s) /\
  (ph s = PIdle -> alloc s = 0 /\ AllEmpty (builders s)) /\
  (ph s = PExited -> alloc s = 0 /\ builders s = []).
Proof.
  intros ls s Hin. apply cinv_accounting.
  pose proof (q_states_cinv ls mq_new cinv_new) as H. rewrite Forall_forall in H. apply H, Hin.
Qed.

Theorem c15_monitor : forall univ ls, forallb mon15_obs (q_run univ mq_new ls) = true.
Proof. intros. apply q_run_mon15, cinv_new. Qed.

(* a transaction's reservation: what is not turned into queued block bytes is returned in the same call,
   and a refused build (stream closed, queue shut down) returns all of it *)
Local Transparent do_build.
Theorem c15_build_reservation : forall s r ops, CInv s ->
  let s' := fst (do_build s r ops) in
  alloc s' + qsum (builders s) = alloc s + qsum (builders s') /\
  ((mem_req r (closed s) || done s) = true -> alloc s' = alloc s /\ builders s' = builders s).
Proof.
  intros s r ops [A P]. pose proof (do_build_acc s r ops A) as [A' Hp]. cbn zeta.
  split.
  - destruct A as [_ Ha], A' as [_ Ha']. rewrite Hp in Ha'. destruct (ph s).
    + lia.
    + destruct Ha, Ha'. lia.
    + destruct Ha, Ha'. lia.
    + lia.
    + destruct Ha as (Ha & Hd & Hb). unfold do_build. destruct (mem_req r (closed s)); [reflexivity|]. rewrite Hd. reflexivity.
  - unfold do_build. destruct (mem_req r (closed s)); [auto|]. destruct (done s); [auto | discriminate].
Qed.
Local Opaque do_build.
