(* ReqMgrCount.v — history-level accounting of status-derived terminal errors (C04 S3, S4).
   P selects the errors counted (all status errors, or exactly AsError n).  A token is created when the loop
   records such an error as the FIRST terminal error of a request in the table; it moves with the table entry,
   through the hand-over on inProgressErr into the error collector's buffer and out to the caller.  Without a
   caller-context cancel nothing is ever dropped, so deliveries = creations once the error channel is closed. *)
From Coq Require Import List NArith Bool Arith Lia.
From GS Require Import Base ReqMgr ReqMgrProofs ReqMgrCC ReqMgrInv.
Import ListNotations.
Open Scope nat_scope.

Section Count.
Variable P : err -> bool.
Hypothesis P_cc : P ErrCC = false.
Hypothesis P_hook : P ErrHook = false.
Hypothesis P_miss : P ErrMissing = false.
Hypothesis P_hard : P ErrHard = false.

Definition b2n (b : bool) : nat := if b then 1 else 0.
Definition cntP (l : list err) : nat := length (filter P l).
Fixpoint dP (es : list ev) : nat :=
  match es with
  | [] => 0
  | EvDelivE e :: r => b2n (P e) + dP r
  | _ :: r => dP r
  end.
Lemma dP_app a b : dP (a ++ b) = dP a + dP b.
Proof. induction a as [|x a IH]; simpl; [reflexivity|]. destruct x; simpl; rewrite ?IH; lia. Qed.
Lemma cntP_app a b : cntP (a ++ b) = cntP a + cntP b.
Proof. unfold cntP. rewrite filter_app, app_length. reflexivity. Qed.

(* tokens held by the state *)
Definition tokE (o : option entry) : nat :=
  match o with Some en => match e_terr en with Some e => b2n (P e) | None => 0 end | None => 0 end.
Definition T (s : st) : nat := tokE (ent s) + cntP (ebuf s).

(* the step records a P-error as the first terminal error *)
Definition creates (s : st) (l : label) : nat :=
  match l, lpc s, mbox s, ent s with
  | LLoop, LIdle, MResp r :: _, Some en =>
      match e_terr en, r_status r with
      | None, SFail n => if r_hookerr r then 0 else b2n (P (ErrStatus n))
      | _, _ => 0
      end
  | _, _, _, _ => 0
  end.

(* errors held by the executor are never counted; the error the loop hands over is the recorded one *)
Definition X1 (s : st) : Prop :=
  match xpc s with
  | XSendErr e _ | XFinSend e | XFin (Some e) => P e = false
  | _ => True
  end /\
  match lpc s with
  | LTermSend e _ => match ent s with Some en => e_terr en = Some e | None => False end
  | _ => True
  end.

Lemma quiet_dP es : forallb quiet_ev es = true -> dP es = 0.
Proof. induction es as [|x es IH]; simpl; intro H; [reflexivity|]. apply andb_true_iff in H as [Hx H]. destruct x; try discriminate; auto. Qed.

(* ---------- loop ---------- *)
Lemma term3_T rel s : ent (term3 rel s) = ent s /\ ebuf (term3 rel s) = ebuf s.
Proof. unfold term3. destruct rel; auto. Qed.
Lemma term2_T a rel s : ent (term2 a rel s) = None /\ ebuf (term2 a rel s) = ebuf s.
Proof. unfold term2, term3. destruct a, rel; auto. Qed.

Definition tok_of (t : option err) : nat := match t with Some x => b2n (P x) | None => 0 end.

Lemma coe_tok e eo s :
  tokE (ent (cancel_on_error e eo s)) = tok_of (match e_terr e with None => eo | Some x => Some x end) /\
  ebuf (cancel_on_error e eo s) = ebuf s.
Proof.
  unfold cancel_on_error, terminate, term2, term3, tokE, tok_of.
  destruct (e_state e), (e_terr e), eo, (e_started e); simpl; auto.
Qed.
Lemma coe_x1 e eo s : X1 s -> lpc s = LIdle -> xpc (cancel_on_error e eo s) = xpc s /\ X1 (cancel_on_error e eo s).
Proof.
  unfold X1. intros [A B] L. unfold cancel_on_error, terminate, term2, term3.
  destruct (e_state e), (e_terr e), eo, (e_started e); simpl; rewrite ?L; simpl; auto.
Qed.
Lemma terminate_tok e rel s : ent s = Some e ->
  tokE (ent (terminate e rel s)) = tokE (ent s) /\ ebuf (terminate e rel s) = ebuf s.
Proof.
  intro E. unfold terminate, term2, term3, tokE. rewrite E.
  destruct (e_terr e) eqn:TE, (e_started e), rel; simpl; rewrite ?E, ?TE; auto.
Qed.
Lemma terminate_x1 e rel s : X1 s -> ent s = Some e -> xpc s = XAwaitDone -> X1 (terminate e rel s).
Proof.
  unfold X1. intros [A B] E X. unfold terminate, term2, term3.
  destruct (e_terr e) eqn:TE, (e_started e), rel; simpl; rewrite ?X, ?E; simpl; auto.
Qed.

Definition creates_m (m : msg) (s : st) : nat :=
  match m, ent s with
  | MResp r, Some en =>
      match e_terr en, r_status r with
      | None, SFail n => if r_hookerr r then 0 else b2n (P (ErrStatus n))
      | _, _ => 0
      end
  | _, _ => 0
  end.

Lemma handle_T m s s1 e1 :
  handle m s = Some (s1, e1) -> lpc s = LIdle -> X1 s ->
  T s1 = T s + creates_m m s /\ dP e1 = 0 /\ X1 s1.
Proof.
  intros H L X. unfold T, creates_m. unfold handle in H.
  destruct m as [api|r| |p| |]; destruct (ent s) as [e|] eqn:E.
  - inv H. destruct (coe_tok (Build_entry (e_state e) (e_terr e) (if api then S (e_waiters e) else e_waiters e) (e_started e))
                             (if api then Some ErrCC else None) s) as [A B].
    destruct (coe_x1 (Build_entry (e_state e) (e_terr e) (if api then S (e_waiters e) else e_waiters e) (e_started e))
                     (if api then Some ErrCC else None) s X L) as [_ X'].
    rewrite A, B. simpl. (split; [|split]); auto. unfold tokE, tok_of. destruct (e_terr e); [lia|]. destruct api; simpl; rewrite ?P_cc; simpl; lia.
  - inv H. rewrite ?E. simpl. (split; [|split]); auto; try lia.
  - destruct (r_hookerr r) eqn:Hk.
    + inv H. destruct (coe_tok e (Some ErrHook) s) as [A B]. destruct (coe_x1 e (Some ErrHook) s X L) as [_ X'].
      rewrite A, B. simpl. (split; [|split]); auto. unfold tokE, tok_of. destruct (e_terr e); simpl; rewrite ?P_hook; simpl; try lia.
      destruct (r_status r); lia.
    + set (s1' := if e_started e && ropen s then s_rq (rq s + r_items r) s else s) in *.
      assert (ent s1' = ent s /\ ebuf s1' = ebuf s /\ lpc s1' = lpc s /\ X1 s1') as (Q1 & Q2 & Q3 & Q4).
      { unfold s1'. destruct (e_started e && ropen s); simpl; auto. }
      destruct (r_status r) as [| |n] eqn:St.
      * inv H. rewrite Q1, Q2, E. simpl. (split; [|split]); auto. destruct (e_terr e); lia.
      * inv H. assert (ent (if e_started e then s_ropen false s1' else s1') = ent s1' /\ ebuf (if e_started e then s_ropen false s1' else s1') = ebuf s1') as [R1 R2] by (destruct (e_started e); auto).
        rewrite R1, R2, Q1, Q2, E. simpl. (split; [|split]); try (destruct (e_terr e); lia); try reflexivity;
          destruct (e_started e); auto.
      * inv H. destruct (coe_tok e (Some (ErrStatus n)) s1') as [A B].
        assert (lpc s1' = LIdle) as L' by (rewrite Q3; exact L). destruct (coe_x1 e (Some (ErrStatus n)) s1' Q4 L') as [_ X'].
        set (s2 := cancel_on_error e (Some (ErrStatus n)) s1') in *.
        assert (forall z, z = (match ent s2 with Some e2 => if e_started e2 then s_ropen false s2 else s2 | None => s2 end) ->
                ent z = ent s2 /\ ebuf z = ebuf s2 /\ X1 z) as Z.
        { intros z ->. destruct (ent s2) as [e2|] eqn:E2; [destruct (e_started e2)|]; simpl; rewrite ?E2; auto. }
        destruct (Z _ eq_refl) as (Z1 & Z2 & Z3). rewrite Z1, Z2, A, B, Q2. simpl. (split; [|split]); auto.
        unfold tokE, tok_of. destruct (e_terr e); simpl; lia.
  - inv H. rewrite ?E. simpl. (split; [|split]); auto; try lia.
  - destruct (xpc s) eqn:Xp; try discriminate H. inv H. destruct (e_started e); simpl; rewrite ?E; simpl; (split; [|split]); auto; try lia;
      destruct X as [XA XB]; unfold X1; simpl; rewrite L in *; split; auto.
  - destruct (xpc s) eqn:Xp; try discriminate H. inv H. simpl. rewrite ?E. simpl. (split; [|split]); auto; try lia.
    destruct X as [XA XB]. unfold X1. simpl. rewrite L in *. split; auto.
  - destruct (xpc s) eqn:Xp; try discriminate H. destruct (p && negb (rctx s)).
    + inv H. simpl. (split; [|split]); auto; try lia. destruct X as [XA XB]. unfold X1. simpl. rewrite L in *. split; auto.
    + inv H. destruct (terminate_tok e true s E) as [A B]. rewrite A, B, E. simpl. (split; [|split]); auto; try lia.
      apply terminate_x1; auto.
  - destruct (xpc s) eqn:Xp; try discriminate H. inv H. simpl. rewrite ?E. simpl. (split; [|split]); auto.
    destruct X as [XA XB]. unfold X1. simpl. rewrite L in *. split; auto.
  - destruct (e_state e); inv H; simpl; rewrite ?E; simpl; (split; [|split]); auto; lia.
  - inv H. rewrite ?E. simpl. (split; [|split]); auto; try lia.
  - destruct (e_state e); inv H; simpl; rewrite ?E; simpl; (split; [|split]); auto; try lia;
      destruct X as [XA XB]; unfold X1; simpl; rewrite L in *; split; auto.
  - inv H. rewrite ?E. simpl. (split; [|split]); auto; try lia.
Qed.

(* ---------- executor ---------- *)
Lemma exec_T c s s1 e1 :
  exec_step c s = Some (s1, e1) -> X1 s ->
  ent s1 = ent s /\ ebuf s1 = ebuf s /\ dP e1 = 0 /\ X1 s1.
Proof.
  unfold exec_step, after_err, trav_ok, trav_skip, X1. intros H [A B].
  destruct (xpc s) eqn:X; try discriminate H; dm H; inv H; simpl; rewrite ?X; simpl; auto 10.
Qed.

Lemma send_err_T src s e s1 :
  send_err src s = Some (e, s1) -> X1 s ->
  ebuf s1 = ebuf s /\ X1 s1 /\
  match src with
  | SrcLoop => ent s1 = None /\ tokE (ent s) = b2n (P e)
  | _ => ent s1 = ent s /\ P e = false
  end.
Proof.
  unfold send_err, X1. intros H [A B]. destruct src.
  - destruct (xpc s) eqn:X; try discriminate H. inv H.
    assert (forall z, z = (match e with ErrMissing => trav_skip s | _ => s_trav (TDone true) s end) ->
            ent z = ent s /\ ebuf z = ebuf s /\ lpc z = lpc s) as Z.
    { intros z ->. unfold trav_skip. destruct e; simpl; auto. destruct (plan s) as [|p pl]; simpl; auto. destruct (p_root p); simpl; auto. }
    destruct (Z _ eq_refl) as (Z1 & Z2 & Z3). simpl. rewrite Z1, Z2, Z3. auto.
  - destruct (xpc s) eqn:X; try discriminate H. inv H. simpl. auto.
  - destruct (lpc s) eqn:L; try discriminate H. destruct (ent s) as [en|] eqn:E; try discriminate H. inv H.
    destruct (term2_T (e_started en) rel s) as [Q1 Q2]. rewrite Q1, Q2. unfold tokE. rewrite B.
    repeat split; auto; unfold term2, term3; destruct (e_started en), rel; simpl; auto.
Qed.

(* ---------- one raw step: deliveries + tokens after <= tokens before + creations; equal without drops ---------- *)
Definition bal (s : st) (l : label) (s1 : st) (e1 : list ev) : Prop :=
  dP e1 + T s1 <= T s + creates s l /\ (cctx s1 = false -> dP e1 + T s1 = T s + creates s l).

Lemma bal_same s l s1 e1 :
  ent s1 = ent s -> ebuf s1 = ebuf s -> dP e1 = 0 -> creates s l = 0 -> bal s l s1 e1.
Proof. intros A B C D. unfold bal, T. rewrite A, B, C, D. lia. Qed.

Lemma X1_same s s1 : xpc s1 = xpc s -> lpc s1 = lpc s -> ent s1 = ent s -> X1 s -> X1 s1.
Proof. unfold X1. intros -> -> ->. auto. Qed.

Lemma creates_not_loop s l : (match l with LLoop => False | _ => True end) -> creates s l = 0.
Proof. destruct l; simpl; tauto. Qed.

Lemma raw_T s l s1 e1 :
  step_raw s l = Some (s1, e1) -> X1 s -> cinv s = true -> X1 s1 /\ bal s l s1 e1.
Proof.
  intros H X CI. destruct l; simpl in H.
  - inv H. split; [apply (X1_same s); auto | apply bal_same; auto].
  - inv H. split; [apply (X1_same s); auto | apply bal_same; auto].
  - inv H. split; [apply (X1_same s); auto | apply bal_same; auto].
  - inv H. split; [apply (X1_same s); auto | apply bal_same; auto].
  - inv H. split; [apply (X1_same s); auto | apply bal_same; auto].
  - inv H. split; [exact X | apply bal_same; auto].
  - dm H; inv H. split; [apply (X1_same s); auto | apply bal_same; auto].
  - (* LCallerRecvE *)
    destruct (ec s) as [io|[|]|] eqn:E; try discriminate H.
    + destruct (ebuf s) as [|e r] eqn:B; [discriminate H|]. inv H.
      split; [apply (X1_same s); auto|]. unfold bal, T, cntP. simpl. rewrite B. simpl.
      destruct (P e); simpl; lia.
    + assert (s1 = s_ec (ECRun false) s /\ e1 = [EvDelivE ErrCC]) as [-> ->] by (destruct (ebuf s); inv H; auto).
      split; [apply (X1_same s); auto|]. unfold bal, T. simpl. rewrite P_cc. simpl. lia.
    + assert (s1 = s_ebuf [] (s_ec ECExit s) /\ e1 = [EvDelivE ErrCC; EvCloseE]) as [-> ->] by (destruct (ebuf s); inv H; auto).
      split; [apply (X1_same s); auto|]. unfold bal, T. simpl. rewrite P_cc. simpl.
      assert (cctx s = true) as C.
      { unfold cinv in CI. rewrite E in CI. destruct (rc s) as [[|]|[|] [|] [|]|], (cctx s), (iclosed s); simpl in CI; try discriminate CI; reflexivity. }
      split; [unfold cntP; simpl; lia | intro F; congruence].
  - (* LLoop *)
    destruct (lpc s) eqn:L; try discriminate H.
    + destruct (mbox s) as [|m r] eqn:M; [discriminate H|].
      assert (X1 (s_mbox r s)) as X' by (apply (X1_same s); auto).
      destruct (handle_T m (s_mbox r s) s1 e1 H L X') as (A & B & C). split; [exact C|].
      assert (creates_m m (s_mbox r s) = creates s LLoop) as Q.
      { unfold creates, creates_m. simpl. rewrite L, M. destruct m; try reflexivity; destruct (ent s); reflexivity. }
      assert (T (s_mbox r s) = T s) as Q2 by reflexivity.
      rewrite Q, Q2 in A. unfold bal. rewrite A, B. generalize (creates s LLoop) (T s). intros; lia.
    + destruct (trav s); try discriminate H. inv H. destruct (term3_T rel s) as [A B].
      split.
      * destruct X as [XA XB]. unfold X1, term3. destruct rel; simpl; rewrite ?L; auto.
      * apply bal_same; auto. unfold creates. rewrite L. reflexivity.
  - dm H; inv H. split; [|apply bal_same; auto]. destruct X as [XA XB]. unfold X1. simpl. auto.
  - destruct (exec_T _ _ _ _ H X) as (A & B & C & D). split; [exact D | apply bal_same; auto].
  - (* LTrav *)
    assert (ent s1 = ent s /\ ebuf s1 = ebuf s /\ xpc s1 = xpc s /\ lpc s1 = lpc s /\ e1 = []) as (A & B & C & D & ->).
    { dm H; try (inv H; simpl; auto 10; fail). unfold recv_visit in Heqo. dm Heqo; inv Heqo; inv H; simpl; auto 10. }
    split; [apply (X1_same s); auto | apply bal_same; auto].
  - (* LErr *)
    destruct (send_err s0 s) as [[e sa]|] eqn:SE; [|discriminate H].
    destruct (recv_err d e sa) as [sb|] eqn:RE; [|discriminate H]. inv H.
    destruct (send_err_T _ _ _ _ SE X) as (B1 & X' & M).
    assert (creates s (LErr s0 d) = 0) as CR by reflexivity.
    unfold recv_err in RE. destruct d.
    + destruct (ec sa) as [[|]| |] eqn:E; try discriminate RE. inv RE.
      split; [apply (X1_same sa); auto|]. unfold bal, T. simpl. rewrite cntP_app, B1, ?CR. unfold cntP at 2. simpl.
      unfold cntP at 4. simpl.
      destruct s0; destruct M as [M1 M2]; rewrite M1; rewrite ?M2; simpl; try lia; destruct (P e); simpl in *; lia.
    + destruct (rc sa) as [|a b [|]|] eqn:R; try discriminate RE. inv RE.
      split; [exact X'|]. unfold bal, T. simpl. rewrite B1, ?CR.
      assert (cctx s1 = true) as C.
      { assert (cctx s1 = cctx s) as Q by (eapply send_err_cctx; eauto). rewrite Q.
        assert (rc s = RCDrain a b true) as R' by (apply send_err_ch in SE as [R1 _]; congruence).
        unfold cinv in CI. rewrite R' in CI. destruct (cctx s); [reflexivity | destruct a, b, (iclosed s); simpl in CI; discriminate CI]. }
      destruct s0; destruct M as [M1 M2]; rewrite M1; try rewrite M2; simpl; (split; [lia | intro F; congruence]).
  - dm H; inv H; (split; [apply (X1_same s); auto | apply bal_same; auto]).
  - dm H; inv H; (split; [apply (X1_same s); auto | apply bal_same; auto]).
Qed.

(* ---------- norms, steps, runs ---------- *)
Lemma norm_T s1 e1 :
  let r := with_norm (s1, e1) in
  ent (fst r) = ent s1 /\ ebuf (fst r) = ebuf s1 /\ xpc (fst r) = xpc s1 /\ lpc (fst r) = lpc s1 /\
  cctx (fst r) = cctx s1 /\ dP (snd r) = dP e1.
Proof.
  unfold with_norm, rc_norm, ec_norm.
  destruct (rc s1) as [[|]|[|] [|] [|]|]; simpl; try destruct (Nat.eqb (rbuf s1) 0); simpl;
    destruct (ec s1) as [[|]|[|]|]; simpl; try destruct (ebuf s1) eqn:EB; simpl; rewrite ?dP_app; simpl; repeat split; auto; try lia.
Qed.

Lemma step_T s l s' es :
  step s l = Some (s', es) -> X1 s -> cinv s = true -> X1 s' /\ bal s l s' es.
Proof.
  unfold step. destruct (step_raw s l) as [[s1 e1]|] eqn:R; [|discriminate]. intros H X CI.
  destruct (raw_T _ _ _ _ R X CI) as [X' [B1 B2]].
  pose proof (norm_T s1 e1) as N. destruct (with_norm (s1, e1)) as [s2 e2]. inv H. simpl in N.
  destruct N as (N1 & N2 & N3 & N4 & N5 & N6).
  split; [apply (X1_same s1); auto|]. unfold bal, T in *. rewrite N1, N2, N5, N6. auto.
Qed.

Fixpoint created (s : st) (ls : list label) : nat :=
  match ls with
  | [] => 0
  | l :: r => creates s l + match step s l with Some (s1, _) => created s1 r | None => 0 end
  end.

Lemma X1_init pl : X1 (init pl).
Proof. unfold X1. simpl. auto. Qed.

Theorem run_T : forall ls s s' es,
  run s ls = Some (s', es) -> X1 s -> cinv s = true ->
  dP es + T s' <= T s + created s ls /\ (cctx s' = false -> dP es + T s' = T s + created s ls).
Proof.
  induction ls as [|l ls IH]; simpl; intros s s' es H X CI.
  - inv H. simpl. lia.
  - destruct (step s l) as [[s1 e1]|] eqn:S; [|discriminate].
    destruct (run s1 ls) as [[s2 e2]|] eqn:R; [|discriminate]. inv H.
    destruct (step_T _ _ _ _ S X CI) as [X' [B1 B2]].
    destruct (IH _ _ _ R X' (cinv_step _ _ _ _ S CI)) as [I1 I2].
    rewrite dP_app. split; [lia|]. intro C.
    assert (cctx s1 = false) as C1.
    { destruct (cctx s1) eqn:Q; [|reflexivity]. assert (cctx s' = true) as Q'; [|congruence].
      clear - R Q. revert s1 s' e2 R Q. induction ls as [|l' ls' IH']; simpl; intros s1 s' e2 R Q.
      - inv R. exact Q.
      - destruct (step s1 l') as [[sa ea]|] eqn:Sa; [|discriminate].
        destruct (run sa ls') as [[sb eb]|] eqn:Rb; [|discriminate]. inv R.
        eapply IH'; eauto. eapply step_cctx; eauto. }
    specialize (B2 C1). specialize (I2 C). lia.
Qed.
End Count.

(* ---------- frames on the error buffer; the buffer is empty once the error collector has exited ---------- *)
Lemma coe_ebuf e eo s : ebuf (cancel_on_error e eo s) = ebuf s.
Proof. unfold cancel_on_error, terminate, term2, term3. destruct (e_state e), (e_terr e), eo, (e_started e); reflexivity. Qed.
Lemma terminate_ebuf e rel s : ebuf (terminate e rel s) = ebuf s.
Proof. unfold terminate, term2, term3. destruct (e_terr e), (e_started e), rel; reflexivity. Qed.
Lemma term2_ebuf a rel s : ebuf (term2 a rel s) = ebuf s.
Proof. unfold term2, term3. destruct a, rel; reflexivity. Qed.
Lemma handle_ebuf m s s1 e1 : handle m s = Some (s1, e1) -> ebuf s1 = ebuf s.
Proof.
  unfold handle. intro H. dm H; inv H; simpl; rewrite ?coe_ebuf, ?terminate_ebuf; simpl; auto;
    repeat match goal with |- context [cancel_on_error ?a ?b ?c] => rewrite (coe_ebuf a b c) end; simpl; auto.
Qed.
Lemma exec_ebuf c s s1 e1 : exec_step c s = Some (s1, e1) -> ebuf s1 = ebuf s.
Proof. unfold exec_step, after_err, trav_ok, trav_skip. intro H. dm H; inv H; reflexivity. Qed.
Lemma send_err_ebuf src s e s0 : send_err src s = Some (e, s0) -> ebuf s0 = ebuf s.
Proof. unfold send_err, trav_skip. intro H. dm H; inv H; simpl; rewrite ?term2_ebuf; reflexivity. Qed.

Definition Jx (s : st) : Prop := ec s = ECExit -> ebuf s = [].

Lemma raw_Jx s l s1 e1 : step_raw s l = Some (s1, e1) -> Jx s -> Jx s1.
Proof.
  unfold Jx. intros H J. destruct (is_coll l) eqn:C.
  - destruct l; try discriminate C; simpl in H; dm H; inv H; simpl; intros; try congruence; auto.
  - destruct (step_raw_rcec _ _ _ _ H C) as [_ B]. rewrite B. intro X. specialize (J X).
    destruct l; try discriminate C; simpl in H; try (inv H; simpl; auto; fail).
    + dm H; try (inv H; destruct rel; simpl; auto; fail). apply handle_ebuf in H. simpl in H. congruence.
    + dm H; inv H; simpl; auto.
    + apply exec_ebuf in H. congruence.
    + dm H; try (inv H; simpl; auto; fail). unfold recv_visit in Heqo. dm Heqo; inv Heqo; inv H; simpl; auto.
    + dm H. inv H. pose proof (send_err_ebuf _ _ _ _ Heqo) as Q. unfold recv_err in Heqo0.
      destruct d; dm Heqo0; inv Heqo0; simpl; try congruence.
      apply send_err_ch in Heqo as [_ R2]. congruence.
Qed.
Lemma norm_Jx s1 e1 : Jx s1 -> Jx (fst (with_norm (s1, e1))).
Proof.
  unfold Jx, with_norm, rc_norm, ec_norm.
  destruct (rc s1) as [[|]|[|] [|] [|]|]; simpl; try destruct (Nat.eqb (rbuf s1) 0); simpl;
    destruct (ec s1) as [[|]|[|]|] eqn:E; simpl; try destruct (ebuf s1) eqn:EB; simpl; intros; try congruence; auto.
Qed.
Theorem Jx_reach pl ls s es : run (init pl) ls = Some (s, es) -> Jx s.
Proof.
  assert (forall ls s s' es, run s ls = Some (s', es) -> Jx s -> Jx s') as G.
  { clear. induction ls as [|l ls IH]; simpl; intros s s' es H J.
    - inv H. exact J.
    - destruct (step s l) as [[s1 e1]|] eqn:S; [|discriminate].
      destruct (run s1 ls) as [[s2 e2]|] eqn:R; [|discriminate]. inv H. eapply IH; eauto.
      unfold step in S. destruct (step_raw s l) as [[sa ea]|] eqn:Ra; [|discriminate].
      pose proof (norm_Jx sa ea (raw_Jx _ _ _ _ Ra J)) as N. destruct (with_norm (sa, ea)). inv S. exact N. }
  intro H. eapply G; eauto. unfold Jx. simpl. discriminate.
Qed.

(* ---------- at most one creation: the first terminal error is recorded once ---------- *)
Definition noterr (s : st) : bool :=
  match ent s with Some en => match e_terr en with None => true | Some _ => false end | None => false end.

Lemma coe_noterr e eo s : noterr (cancel_on_error e eo s) = true -> e_terr e = None /\ eo = None.
Proof.
  unfold noterr, cancel_on_error, terminate, term2, term3.
  destruct (e_state e), (e_terr e), eo, (e_started e); simpl; intro H; try discriminate H; auto.
Qed.
Lemma terminate_noterr e rel s : ent s = Some e -> noterr (terminate e rel s) = true -> noterr s = true.
Proof.
  intro E. unfold noterr, terminate, term2, term3. rewrite E.
  destruct (e_terr e) eqn:TE, (e_started e), rel; simpl; rewrite ?E, ?TE; auto.
Qed.

Lemma handle_noterr m s s1 e1 :
  handle m s = Some (s1, e1) -> noterr s1 = true ->
  noterr s = true /\ match m with MResp r => match r_status r with SFail _ => r_hookerr r = true | _ => True end | _ => True end.
Proof.
  unfold handle. intros H N. destruct m as [api|r| |p| |]; destruct (ent s) as [e|] eqn:E; unfold noterr at 1; rewrite ?E.
  - inv H. apply coe_noterr in N as [N1 N2]. simpl in N1. rewrite N1. auto.
  - inv H. unfold noterr in N. rewrite E in N. discriminate.
  - destruct (r_hookerr r) eqn:Hk.
    + inv H. apply coe_noterr in N as [_ N2]. discriminate.
    + set (s1' := if e_started e && ropen s then s_rq (rq s + r_items r) s else s) in *.
      assert (ent s1' = ent s) as Q by (unfold s1'; destruct (e_started e && ropen s); reflexivity).
      destruct (r_status r) as [| |n].
      * inv H. unfold noterr in N. rewrite Q, E in N. destruct (e_terr e); [discriminate | auto].
      * inv H. assert (ent (if e_started e then s_ropen false s1' else s1') = ent s) as Q2 by (destruct (e_started e); simpl; auto).
        unfold noterr in N. rewrite Q2, E in N. destruct (e_terr e); [discriminate | auto].
      * inv H. exfalso. set (s2 := cancel_on_error e (Some (ErrStatus n)) s1') in *.
        assert (noterr s2 = true) as N2.
        { destruct (ent s2) as [e2|] eqn:E2; [destruct (e_started e2)|]; unfold noterr in *; simpl in N; exact N. }
        apply coe_noterr in N2 as [_ N2]. discriminate.
  - inv H. unfold noterr in N. rewrite E in N. discriminate.
  - destruct (xpc s); try discriminate H. inv H. unfold noterr in N. destruct (e_started e); simpl in N; destruct (e_terr e); try discriminate; auto.
  - destruct (xpc s); try discriminate H. inv H. unfold noterr in N. simpl in N. rewrite E in N. discriminate.
  - destruct (xpc s); try discriminate H. destruct (p && negb (rctx s)).
    + inv H. unfold noterr in N. simpl in N. destruct (e_terr e); try discriminate; auto.
    + inv H. apply (terminate_noterr e true s E) in N. unfold noterr in N. rewrite E in N. destruct (e_terr e); try discriminate; auto.
  - destruct (xpc s); try discriminate H. inv H. unfold noterr in N. simpl in N. rewrite E in N. discriminate.
  - destruct (e_state e); inv H; unfold noterr in N; simpl in N; rewrite ?E in N; destruct (e_terr e); try discriminate; auto.
  - inv H. unfold noterr in N. rewrite E in N. discriminate.
  - destruct (e_state e); inv H; unfold noterr in N; simpl in N; rewrite ?E in N; destruct (e_terr e); try discriminate; auto.
  - inv H. unfold noterr in N. rewrite E in N. discriminate.
Qed.

Lemma send_err_ent src s e s0 : send_err src s = Some (e, s0) -> ent s0 = ent s \/ ent s0 = None.
Proof.
  unfold send_err, trav_skip. intro H. dm H; inv H; simpl; auto.
  right. match goal with |- ent (term2 ?a ?b ?c) = None => unfold term2, term3; destruct a, b; reflexivity end.
Qed.

Lemma raw_noterr P s l s1 e1 :
  step_raw s l = Some (s1, e1) -> noterr s1 = true -> noterr s = true /\ creates P s l = 0.
Proof.
  intros H N. destruct l; simpl in H; try (inv H; unfold noterr in *; simpl in *; auto; fail).
  - dm H; inv H; unfold noterr in *; simpl in *; auto.
  - dm H; inv H; unfold noterr in *; simpl in *; auto.
  - destruct (lpc s) eqn:L; try discriminate H.
    + destruct (mbox s) as [|m r] eqn:M; [discriminate H|].
      destruct (handle_noterr _ _ _ _ H N) as [N1 N2]. split; [exact N1|].
      unfold creates. rewrite L, M. destruct m; auto. destruct (ent s) as [en|]; auto. destruct (e_terr en); auto.
      destruct (r_status r0); auto. rewrite N2. reflexivity.
    + destruct (trav s); try discriminate H. inv H. split.
      * unfold noterr, term3 in *. destruct rel; simpl in *; auto.
      * unfold creates. rewrite L. reflexivity.
  - dm H; inv H; unfold noterr in *; simpl in *; auto.
  - assert (ent s1 = ent s) as Q by (unfold exec_step, after_err, trav_ok, trav_skip in H; dm H; inv H; reflexivity).
    unfold noterr in *. rewrite Q in N. auto.
  - assert (ent s1 = ent s) as Q by (dm H; try (inv H; reflexivity); unfold recv_visit in Heqo; dm Heqo; inv Heqo; inv H; reflexivity).
    unfold noterr in *. rewrite Q in N. auto.
  - dm H. inv H. assert (ent s1 = ent s2) as Q by (unfold recv_err in Heqo0; dm Heqo0; inv Heqo0; reflexivity).
    destruct (send_err_ent _ _ _ _ Heqo) as [Q2|Q2]; unfold noterr in *; rewrite Q, Q2 in N; auto. discriminate.
  - dm H; inv H; unfold noterr in *; simpl in *; auto.
  - dm H; inv H; unfold noterr in *; simpl in *; auto.
Qed.

Lemma step_noterr P s l s1 e1 :
  step s l = Some (s1, e1) -> noterr s1 = true -> noterr s = true /\ creates P s l = 0.
Proof.
  unfold step. destruct (step_raw s l) as [[sa ea]|] eqn:R; [|discriminate]. intros H N.
  apply (raw_noterr P _ _ _ _ R).
  pose proof (norm_T (fun _ => false) sa ea) as (Q & _). destruct (with_norm (sa, ea)) as [sb eb]. inv H. simpl in Q.
  unfold noterr in *. rewrite Q in N. exact N.
Qed.

Lemma creates_le P s l : creates P s l <= (if noterr s then 1 else 0).
Proof.
  unfold creates, noterr. destruct l; try lia. destruct (lpc s); try lia. destruct (mbox s) as [|[]]; try lia.
  destruct (ent s) as [en|]; try lia. destruct (e_terr en); try lia. destruct (r_status r); try lia.
  destruct (r_hookerr r); try lia. destruct (P (ErrStatus n)); simpl; lia.
Qed.

Theorem created_le P : forall ls s, created P s ls <= (if noterr s then 1 else 0).
Proof.
  induction ls as [|l ls IH]; intro s; simpl; [destruct (noterr s); lia|].
  pose proof (creates_le P s l) as C.
  destruct (step s l) as [[s1 e1]|] eqn:S; [|lia].
  specialize (IH s1). destruct (noterr s1) eqn:N1.
  - destruct (step_noterr P _ _ _ _ S N1) as [N C0]. rewrite N, C0. lia.
  - lia.
Qed.
