(* ReqMgrAccept.v — soundness of the trace acceptor of ReqMgr.v: an accepted observation list is the
   observation of a run of the LTS (no state sets, no fuel, no deduplication in the meaning). *)
From Coq Require Import List NArith Bool Arith Lia Relations.
From GS Require Import Base ReqMgr ReqMgrProofs.
Import ListNotations.

Section Acc.
Variables gp gh : bool.

(* one internal step with given visible tokens, as the acceptor takes it: a label of acc_labels, not an
   executor label while the executor is held at a gate *)
Definition istep (want : list vis) (s s1 : st) : Prop :=
  exists l es, In l acc_labels /\ (is_exec l && gated gp gh s) = false /\
               step s l = Some (s1, es) /\ list_eqb vis_eqb (visible es) want = true.
Definition sreach : st -> st -> Prop := clos_refl_trans st (istep []).

Lemma succs_istep want s s1 : In s1 (succs gp gh want s) -> istep want s s1.
Proof.
  unfold succs, istep. intro H. apply in_flat_map in H as (l & Hl & H).
  destruct (is_exec l && gated gp gh s) eqn:G; [contradiction|].
  destruct (step s l) as [[s2 es]|] eqn:S; [|contradiction].
  destruct (list_eqb vis_eqb (visible es) want) eqn:V; [|contradiction].
  destruct H as [<-|[]]. exists l, es. auto.
Qed.

(* meaning of one observation, from state s to state s1 *)
Definition ostep (s : st) (o : obs) (s1 : st) : Prop :=
  match o with
  | OSent m => exists x, sreach s x /\ istep [VSend m] x s1
  | OLoaded c => exists x, sreach s x /\ istep [VLoad c] x s1
  | OSettle => sreach s s1
  | OQuiet held tbl =>
      sreach s s1 /\ quiescent gp gh s1 = true /\ option_eqb gkind_eqb (gate_of gp gh s1) held = true /\
      option_eqb rstate_eqb (tbl_of s1) tbl = true
  | _ => In s1 (advance gp gh [s] o)
  end.
Inductive orun : st -> list obs -> st -> Prop :=
| orun_nil s : orun s [] s
| orun_cons s o s1 tr s2 : ostep s o s1 -> orun s1 tr s2 -> orun s (o :: tr) s2.

(* ---------- closure ---------- *)
Lemma add_new_sub : forall new seen sn nw, add_new seen new = (sn, nw) -> forall x, In x nw -> In x new.
Proof.
  induction new as [|a new IH]; simpl; intros seen sn nw H x Hx.
  - inv H. contradiction.
  - destruct (existsb (key_eqb (enc a)) seen).
    + right. eapply IH; eauto.
    + destruct (add_new (enc a :: seen) new) as [sn' nw'] eqn:A. inv H.
      destruct Hx as [<-|Hx]; [left; reflexivity | right; eapply IH; eauto].
Qed.

Lemma closure_sound (R : st -> Prop) :
  (forall a b, R a -> istep [] a b -> R b) ->
  forall fuel seen acc front, (forall x, In x acc -> R x) -> (forall x, In x front -> R x) ->
  forall x, In x (closure fuel gp gh seen acc front) -> R x.
Proof.
  intro Hstep. induction fuel as [|f IH]; simpl; intros seen acc front Ha Hf x Hx; [auto|].
  destruct front as [|y front']; [auto|].
  destruct (add_new seen (flat_map (succs gp gh []) (y :: front'))) as [seen' nw] eqn:A.
  assert (forall z, In z nw -> R z) as Hn.
  { intros z Hz. pose proof (add_new_sub _ _ _ _ A z Hz) as Hz'. apply in_flat_map in Hz' as (w & Hw & Hz').
    apply (Hstep w); [apply Hf; exact Hw | apply succs_istep; exact Hz']. }
  eapply IH; [| exact Hn | exact Hx].
  intros z Hz. apply in_app_or in Hz as [Hz|Hz]; auto.
Qed.

Lemma close_sound ss x : In x (close gp gh ss) -> exists s, In s ss /\ sreach s x.
Proof.
  unfold close. destruct (add_new [] ss) as [seen nw] eqn:A. intro H.
  apply (closure_sound (fun x => exists s, In s ss /\ sreach s x)) with (fuel := 3000%nat) (seen := seen) (acc := nw) (front := nw).
  - intros a b (s & Hs & Ra) I. exists s. split; [exact Hs|]. eapply rt_trans; [exact Ra | apply rt_step; exact I].
  - intros z Hz. exists z. split; [eapply add_new_sub; eauto | apply rt_refl].
  - intros z Hz. exists z. split; [eapply add_new_sub; eauto | apply rt_refl].
  - exact H.
Qed.

(* ---------- one observation ---------- *)
Lemma flat_map_single {A B} (f : A -> list B) l y : In y (flat_map f l) -> exists x, In x l /\ In y (flat_map f [x]).
Proof. intro H. apply in_flat_map in H as (x & Hx & Hy). exists x. split; [exact Hx|]. simpl. rewrite app_nil_r. exact Hy. Qed.
Lemma filter_single {A} (f : A -> bool) l y : In y (filter f l) -> exists x, In x l /\ In y (filter f [x]).
Proof. intro H. apply filter_In in H as [Hx Hf]. exists y. split; [exact Hx|]. simpl. rewrite Hf. left. reflexivity. Qed.

Lemma advance_sound ss o s1 : In s1 (advance gp gh ss o) -> exists s, In s ss /\ ostep s o s1.
Proof.
  destruct o as [l|k c|[| |]|[| |] e|m|c|held tbl|]; simpl; intro H.
  - destruct (is_env l) eqn:E; [|contradiction]. unfold step_states in *. apply flat_map_single in H as (x & Hx & H).
    exists x. split; [exact Hx|]. exact H.
  - apply flat_map_single in H as (x & Hx & H). exists x. split; [exact Hx|]. exact H.
  - unfold step_states in *. apply flat_map_single in H as (x & Hx & H). exists x. split; [exact Hx|]. exact H.
  - apply filter_single in H as (x & Hx & H). exists x. split; [exact Hx|]. exact H.
  - apply filter_single in H as (x & Hx & H). exists x. split; [exact Hx|]. exact H.
  - apply flat_map_single in H as (x & Hx & H). exists x. split; [exact Hx|]. exact H.
  - apply filter_single in H as (x & Hx & H). exists x. split; [exact Hx|]. exact H.
  - apply filter_single in H as (x & Hx & H). exists x. split; [exact Hx|]. exact H.
  - apply in_flat_map in H as (x & Hx & H). apply close_sound in Hx as (s & Hs & Rx).
    exists s. split; [exact Hs|]. exists x. split; [exact Rx | apply succs_istep; exact H].
  - apply in_flat_map in H as (x & Hx & H). apply close_sound in Hx as (s & Hs & Rx).
    exists s. split; [exact Hs|]. exists x. split; [exact Rx | apply succs_istep; exact H].
  - apply filter_In in H as [Hx Hf]. apply close_sound in Hx as (s & Hs & Rx).
    exists s. split; [exact Hs|]. apply andb_true_iff in Hf as [Hf H3]. apply andb_true_iff in Hf as [H1 H2]. repeat split; auto.
  - apply close_sound in H as (s & Hs & Rx). exists s. split; [exact Hs | exact Rx].
Qed.

Theorem accepts_sound : forall tr ss s2,
  In s2 (fold_left (advance gp gh) tr ss) -> exists s, In s ss /\ orun s tr s2.
Proof.
  induction tr as [|o tr IH]; simpl; intros ss s2 H.
  - exists s2. split; [exact H | constructor].
  - apply IH in H as (s1 & H1 & R). apply advance_sound in H1 as (s & Hs & O).
    exists s. split; [exact Hs | econstructor; eauto].
Qed.

Corollary accepts_from_sound ss tr :
  accepts_from gp gh ss tr = true -> exists s s2, In s ss /\ orun s tr s2.
Proof.
  unfold accepts_from. destruct (fold_left (advance gp gh) tr ss) as [|s2 r] eqn:F; [discriminate|]. intros _.
  destruct (accepts_sound tr ss s2) as (s & Hs & R); [rewrite F; left; reflexivity|]. eauto.
Qed.
End Acc.

(* what an internal step of the acceptor is, in terms of the LTS *)
Lemma istep_step gp gh want s s1 :
  istep gp gh want s s1 -> exists l es, step s l = Some (s1, es) /\ is_env l = false.
Proof.
  intros (l & es & Hl & _ & S & _). exists l, es. split; [exact S|].
  unfold acc_labels in Hl. apply filter_In in Hl as [Hl _]. unfold internal_labels in Hl. simpl in Hl.
  repeat (destruct Hl as [<-|Hl]; [reflexivity|]). contradiction.
Qed.
