(* C06GenSim.v — C06, requestor side, general form: the plan induction for the paused-and-resumed executor
   (pexec_ask) with ghost stream / path tracker / attempts, in the two modes of the C02 simulation, and the
   theorem: under the guards, any set of pauses with drained resume leaves the outcome equal to the reference. *)
From Coq Require Import List Arith NArith Bool Lia ZifyBool ZifyNat ZifyN.
From GS Require Import Base Ltree RecLoader ReqExec RecLoaderProofs C02Online C02Chunks C02Prefix C02Trie C02Replay C02Quiet C02PrefixProofs C02Contig.
From GS Require Import PauseExec PauseProofs C06Frame C06Stale C06After C06Trie C06Trie2 C06Again C06Gen C06Guard.
Import ListNotations.
Open Scope N_scope.
Local Arguments N.add : simpl never.

(* ---------- both path conditions survive the removal of a segment of the list ---------- *)
Lemma orderedb_tail l r : orderedb (l ++ r) = true -> orderedb r = true.
Proof. induction l as [|a l IH]; intro H; [exact H|]. cbn in H. apply andb_true_iff in H as [_ H]. now apply IH. Qed.
Lemma orderedb_del l1 l2 l3 : orderedb (l1 ++ l2 ++ l3) = true -> orderedb (l1 ++ l3) = true.
Proof.
  induction l1 as [|a l1 IH]; intro H; cbn [app] in *; [now apply (orderedb_tail l2)|].
  cbn in *. apply andb_true_iff in H as [H1 H2]. rewrite !forallb_app in H1. apply andb_true_iff in H1 as [Ha H1].
  apply andb_true_iff in H1 as [_ Hc]. rewrite forallb_app, Ha, Hc. cbn. now apply IH.
Qed.
Lemma pairs_ok_tail a l r : pairs_ok a (l ++ r) = true -> pairs_ok a r = true.
Proof. induction l as [|b l IH]; intro H; [exact H|]. cbn in H. apply andb_true_iff in H as [_ H]. now apply IH. Qed.
Lemma pairs_ok_del a l1 l2 l3 : pairs_ok a (l1 ++ l2 ++ l3) = true -> pairs_ok a (l1 ++ l3) = true.
Proof.
  induction l1 as [|b l1 IH]; intro H; cbn [app] in *; [now apply (pairs_ok_tail a l2)|].
  cbn in *. apply andb_true_iff in H as [H1 H2]. rewrite !forallb_app in H1. apply andb_true_iff in H1 as [Ha H1].
  apply andb_true_iff in H1 as [_ Hc]. rewrite forallb_app, Ha, Hc. cbn. now apply IH.
Qed.
Lemma contigb_tail l r : contigb (l ++ r) = true -> contigb r = true.
Proof. induction l as [|a l IH]; intro H; [exact H|]. cbn in H. apply andb_true_iff in H as [_ H]. now apply IH. Qed.
Lemma contigb_del l1 l2 l3 : contigb (l1 ++ l2 ++ l3) = true -> contigb (l1 ++ l3) = true.
Proof.
  induction l1 as [|a l1 IH]; intro H; cbn [app] in *; [now apply (contigb_tail l2)|].
  cbn in *. apply andb_true_iff in H as [H1 H2]. rewrite (pairs_ok_del a l1 l2 l3 H1). cbn. now apply IH.
Qed.

Definition good (l : list (path * cid)) : Prop := orderedb l = true /\ contigb l = true.
Lemma good_del l1 l2 l3 : good (l1 ++ l2 ++ l3) -> good (l1 ++ l3).
Proof. intros [A B]. split; [now apply (orderedb_del l1 l2) | now apply (contigb_del l1 l2)]. Qed.
Lemma good_prefix l r : good (l ++ r) -> good l.
Proof. intros [A B]. split; [now apply (orderedb_app l r) | now apply (contigb_app l r)]. Qed.
Lemma pcs_snoc A p c ok : pcs (A ++ [(p, c, ok)]) = pcs A ++ [(p, c)].
Proof. unfold pcs. now rewrite map_app. Qed.

Section GSim.
  Variable t0 : ltree.
  Variable R : store.
  Variable sizes : list nat.
  Hypothesis Hroot : aget (root_cid t0) R <> None.
  Notation E := (exec_ask proper_prefix (honest t0 R sizes) 0).
  Notation PE := (pexec_ask proper_prefix (honest t0 R sizes) 0 false).
  Notation St ps := (x_store (p_x ps)).
  Notation Er ps := (x_errs (p_x ps)).

  Definition McA (A : list att) (qs : list path) : Prop :=
    forall q c' ok', In (q, c', ok') A -> pres R c' = false -> forall q', In q' qs -> proper_prefix q q' = false.

  Lemma pexec_any ps p c x' a :
    E (p_x ps) p c = (x', a) -> (a = AOk \/ a = ASkip) -> drained (p_pauses ps) = true ->
    exists x'', PE ps p c = (Build_pstate x'' (p_pauses ps), a) /\ (x'' = x' \/ x'' = pause_resume 0 x').
  Proof.
    intros Ee [-> | ->] Hd.
    - destruct (pexec_ok t0 R sizes ps p c x' Ee Hd) as (x'' & Ep & Hx). exists x''. auto.
    - exists x'. split; [|now left]. unfold pexec_ask. rewrite Ee. reflexivity.
  Qed.

  Lemma pstepT seen h t vu A V ps p c :
    PG2 t0 R seen (h :: t) vu A V (p_x ps) -> drained (p_pauses ps) = true -> is_head R h c seen ->
    (vu = [] \/ proper_prefix vu p = false) -> good (pcs A ++ [(p, c)]) ->
    (forall q c' ok', In (q, c', ok') A -> pres R c' = false -> proper_prefix q p = false) ->
    exists ps' a, PE ps p c = (ps', a) /\ p_pauses ps' = p_pauses ps /\
      PG2 t0 R (seen_step h seen) t (if did_follow (i_act h) then [] else p) (A ++ [(p, c, ans_ok a)]) (V ++ [(p, c)]) (p_x ps') /\
      match i_blk h with
      | Some b => a = AOk /\ St ps' = aput c b (St ps) /\ Er ps' = Er ps
      | None => a = local_ans (St ps) c /\ St ps' = St ps /\ Er ps' = Er ps ++ local_errs (St ps) p c
      end.
  Proof.
    intros HG Hd Hh Hvu [Ho Hc] HM.
    destruct (estepT t0 R sizes Hroot seen h t vu A V (p_x ps) p c HG Hh Hvu Ho Hc HM) as (x' & a & Ee & HG' & Hb).
    assert (Ha : a = AOk \/ a = ASkip).
    { destruct (i_blk h); [destruct Hb as [-> _]; now left|]. destruct Hb as [-> _]. unfold local_ans. destruct (aget c (St ps)); auto. }
    destruct (pexec_any ps p c x' a Ee Ha Hd) as (x'' & Ep & [-> | ->]).
    - eexists. exists a. split; [exact Ep|]. cbn [p_x p_pauses]. auto.
    - eexists. exists a. split; [exact Ep|]. cbn [p_x p_pauses]. split; [reflexivity|].
      split; [now apply pause_keeps2 | exact Hb].
  Qed.

  Lemma pstepF seen vq vu A V ps p c :
    PG2 t0 R seen vq vu A V (p_x ps) -> drained (p_pauses ps) = true -> vu <> [] -> proper_prefix vu p = true ->
    aget c (St ps) = None -> good (pcs A ++ [(p, c)]) ->
    exists ps', PE ps p c = (ps', ASkip) /\ p_pauses ps' = p_pauses ps /\ PG2 t0 R seen vq vu (A ++ [(p, c, false)]) V (p_x ps') /\
                St ps' = St ps /\ Er ps' = Er ps ++ [EMissing p c].
  Proof.
    intros HG Hd Hvu Hpp Hg [Ho Hc].
    destruct (estepF t0 R sizes Hroot seen vq vu A V (p_x ps) p c HG Hvu Hpp Hg Ho Hc) as (x' & Ee & HG' & Hs & He).
    destruct (pexec_any ps p c x' ASkip Ee (or_intror eq_refl) Hd) as (x'' & Ep & [-> | ->]).
    - eexists. split; [exact Ep|]. cbn [p_x p_pauses]. auto.
    - eexists. split; [exact Ep|]. cbn [p_x p_pauses]. split; [reflexivity|]. split; [now apply pause_keeps2 | auto].
  Qed.

  (* ---- below a loaded link the responder lacks: every link is missing locally (the guard) ---- *)
  Definition SimIF2 (l : items) : Prop :=
    forall ps seen vq vu A V restN,
      PG2 t0 R seen vq vu A V (p_x ps) -> drained (p_pauses ps) = true -> wf_items l = true -> vu <> [] ->
      (forall q, In q (ipaths l) -> proper_prefix vu q = true) ->
      good (pcs A ++ inodes l ++ restN) -> nlb_items R l false (St ps) = true ->
      let '(ps', evs, ok) := run_items PE l ps in
      let '(st', o) := ref_items R l false (St ps) in
      ok = true /\ p_pauses ps' = p_pauses ps /\ St ps' = st' /\ st' = St ps /\ Er ps' = Er ps ++ merrs o /\ visits_of evs = ovisits o /\
      exists A', PG2 t0 R seen vq vu A' V (p_x ps') /\
        (exists An, A' = A ++ An /\ forall q c ok, In (q, c, ok) An -> In q (ipaths l)) /\ good (pcs A' ++ restN).

  Lemma simIF2_all : forall l, SimIF2 l.
  Proof.
    induction l as [|v r IH|t r IH]; intros ps seen vq vu A V restN HG Hd Hw Hvu Hb Hgood Hnlb.
    - cbn. rewrite app_nil_r. repeat split; auto. exists A. split; [exact HG|]. split; [exists []; split; [now rewrite app_nil_r | intros q c ok []] | exact Hgood].
    - rewrite run_items_visit, ref_items_visit. specialize (IH ps seen vq vu A V restN HG Hd Hw Hvu Hb Hgood Hnlb).
      destruct (run_items PE r ps) as [[ps2 evs] ok]. destruct (ref_items R r false (St ps)) as [st' o].
      destruct IH as (A1 & B1 & C1 & D1 & F1 & G1 & H1). cbn [visits_of ovisits]. rewrite merrs_visit, G1. auto 10.
    - destruct t as [p c body]. cbn [nlb_items nlb_tree] in Hnlb.
      destruct (aget c (St ps)) as [b0|] eqn:Eg; [cbn in Hnlb; discriminate|]. cbn [andb] in Hnlb.
      rewrite (ref_tree_eq R p c body false (St ps)), Eg in Hnlb. cbn [fst] in Hnlb.
      cbn [inodes tnodes] in Hgood. rewrite <- !app_assoc in Hgood. cbn [app] in Hgood.
      assert (Hg1 : good (pcs A ++ [(p, c)])).
      { apply (good_prefix _ (inodes body ++ inodes r ++ restN)). rewrite <- app_assoc. exact Hgood. }
      destruct (pstepF seen vq vu A V ps p c HG Hd Hvu ltac:(apply Hb; cbn; now left) Eg Hg1) as (ps1 & Ep & Hp1 & HG1 & Hs1 & He1).
      rewrite run_items_child, run_tree_node, Ep, ref_items_child, ref_tree_eq, Eg.
      cbn in Hw. apply andb_true_iff in Hw as [_ Hwr].
      assert (Hgood1 : good (pcs (A ++ [(p, c, false)]) ++ inodes r ++ restN)).
      { rewrite pcs_snoc. pose proof (good_del (pcs A ++ [(p, c)]) (inodes body) (inodes r ++ restN)) as Hdel.
        apply Hdel. rewrite <- app_assoc. exact Hgood. }
      rewrite <- Hp1 in Hd. rewrite <- Hs1 in Hnlb.
      specialize (IH ps1 seen vq vu _ V restN HG1 Hd Hwr Hvu ltac:(intros q Hq; apply Hb; cbn; right; apply in_app_iff; now right) Hgood1 Hnlb).
      rewrite Hs1 in IH.
      destruct (run_items PE r ps1) as [[ps2 e2] ok2]. destruct (ref_items R r false (St ps)) as [st2 o2].
      destruct IH as (A2 & B2 & C2 & D2 & F2 & G2 & (A' & HG2 & (An & EA & HAn) & Hgd)).
      cbn [app visits_of ovisits]. split; [exact A2|]. split; [congruence|]. split; [exact C2|]. split; [exact D2|].
      split; [rewrite F2, He1, <- app_assoc; reflexivity|]. split; [exact G2|].
      exists A'. split; [exact HG2|]. split; [|exact Hgd].
      exists ((p, c, false) :: An). split; [rewrite EA, <- app_assoc; reflexivity|].
      intros q c0 ok0 [Hin|Hin]; [inversion Hin; subst; cbn; now left | cbn; right; apply in_app_iff; right; now apply (HAn q c0 ok0)].
  Qed.

  (* ---- where the responder's own traversal reaches the position ---- *)
  Definition SimT2 (t : ltree) : Prop :=
    forall ps seen rest vu A V restN,
      PG2 t0 R seen (fst (emit_tree R t seen) ++ rest) vu A V (p_x ps) -> drained (p_pauses ps) = true ->
      wf_tree t = true -> (tpath t <> [] \/ aget (root_cid t) R <> None) ->
      (vu = [] \/ forall q, In q (tpaths t) -> proper_prefix vu q = false) ->
      McA A (tpaths t) -> good (pcs A ++ tnodes t ++ restN) -> nlb_tree R t true (St ps) = true ->
      let '(ps', evs, ok) := run_tree PE t ps in
      let '(st', o) := ref_tree R t true (St ps) in
      ok = true /\ p_pauses ps' = p_pauses ps /\ St ps' = st' /\ Er ps' = Er ps ++ merrs o /\ visits_of evs = ovisits o /\
      exists vu' A' V', PG2 t0 R (snd (emit_tree R t seen)) rest vu' A' V' (p_x ps') /\ (vu' = [] \/ In vu' (tpaths t)) /\
        (exists An, A' = A ++ An /\ forall q c ok, In (q, c, ok) An -> In q (tpaths t)) /\ good (pcs A' ++ restN).
  Definition SimIT2 (l : items) : Prop :=
    forall ps seen rest vu A V restN,
      PG2 t0 R seen (fst (emit_items R l seen) ++ rest) vu A V (p_x ps) -> drained (p_pauses ps) = true ->
      wf_items l = true -> pairwise_incomparable (child_paths l) = true -> (forall q, In q (child_paths l) -> q <> []) ->
      (vu = [] \/ forall q, In q (ipaths l) -> proper_prefix vu q = false) ->
      McA A (ipaths l) -> good (pcs A ++ inodes l ++ restN) -> nlb_items R l true (St ps) = true ->
      let '(ps', evs, ok) := run_items PE l ps in
      let '(st', o) := ref_items R l true (St ps) in
      ok = true /\ p_pauses ps' = p_pauses ps /\ St ps' = st' /\ Er ps' = Er ps ++ merrs o /\ visits_of evs = ovisits o /\
      exists vu' A' V', PG2 t0 R (snd (emit_items R l seen)) rest vu' A' V' (p_x ps') /\ (vu' = vu \/ vu' = [] \/ In vu' (ipaths l)) /\
        (exists An, A' = A ++ An /\ forall q c ok, In (q, c, ok) An -> In q (ipaths l)) /\ good (pcs A' ++ restN).

  Lemma PG2_stores seen vq vu A V x : PG2 t0 R seen vq vu A V x -> covers (x_store x) seen /\ agree R (x_store x).
  Proof. intros [(PN & B) _]. destruct B as (_ & _ & _ & _ & _ & _ & B7 & B8 & _). auto. Qed.

  Lemma simT2_node p c body : SimIT2 body -> SimT2 (LNode p c body).
  Proof.
    intros IHT ps seen rest vu A V restN HG Hd Hw Hrt Hu HM Hgood Hnlb.
    rewrite run_tree_node, ref_tree_eq.
    destruct (PG2_stores _ _ _ _ _ _ HG) as [Hcov Hag].
    destruct (wf_node_parts p c body Hw) as (Hwi & Hwp & Hnn).
    assert (Hup : vu = [] \/ proper_prefix vu p = false) by (destruct Hu as [Hu|Hu]; [now left | right; apply Hu; cbn; now left]).
    cbn [tnodes] in Hgood. rewrite <- app_comm_cons in Hgood.
    assert (Hg1 : good (pcs A ++ [(p, c)])).
    { apply (good_prefix _ (inodes body ++ restN)). rewrite <- app_assoc. exact Hgood. }
    assert (HMp : forall q c' ok', In (q, c', ok') A -> pres R c' = false -> proper_prefix q p = false).
    { intros q c' ok' Hin Hp. apply (HM q c' ok' Hin Hp). cbn. now left. }
    cbn [nlb_tree] in Hnlb.
    destruct (aget c R) as [b|] eqn:ER.
    - (* the responder has the block *)
      rewrite (emit_present R p c body b seen ER) in HG |- *. cbn [fst snd app] in HG |- *.
      set (it := {| i_link := c; i_act := Present; i_blk := if negb (existsb (N.eqb c) seen) then Some b else None |}) in *.
      assert (Hh : is_head R it c seen) by (split; [reflexivity | left; split; [reflexivity | exists b; auto]]).
      destruct (pstepT seen it _ vu A V ps p c HG Hd Hh Hup Hg1 HMp) as (ps1 & a & Ep & Hp1 & HG1 & Hb).
      cbn [i_act did_follow i_blk it] in HG1, Hb. unfold seen_step in HG1. cbn [i_act i_link it] in HG1.
      assert (Hs : a = AOk /\ St ps1 = aput c b (St ps) /\ Er ps1 = Er ps).
      { destruct (existsb (N.eqb c) seen) eqn:Es; cbn [negb] in Hb.
        - destruct Hb as (-> & Hst & Her). apply existsb_eqb_in' in Es.
          unfold local_ans, local_errs in *. destruct (aget c (St ps)) as [b0|] eqn:Eg; [|exfalso; now apply (Hcov c Es)].
          rewrite (Hag c b0 b Eg ER) in Eg. rewrite (aput_same c b _ Eg). rewrite app_nil_r in Her. auto.
        - exact Hb. }
      destruct Hs as (-> & Hst & Her). rewrite Ep. cbn [ans_ok] in HG1.
      assert (Hnlb1 : nlb_items R body true (St ps1) = true).
      { rewrite Hst. destruct (aget c (St ps)); exact Hnlb. }
      assert (HM1 : McA (A ++ [(p, c, true)]) (ipaths body)).
      { intros q c' ok' Hin Hp q' Hq'. apply in_app_iff in Hin as [Hin|[Hin|[]]].
        - apply (HM q c' ok' Hin Hp). cbn. now right.
        - inversion Hin; subst. unfold pres in Hp. rewrite ER in Hp. discriminate. }
      assert (Hgood1 : good (pcs (A ++ [(p, c, true)]) ++ inodes body ++ restN)).
      { rewrite pcs_snoc, <- app_assoc. exact Hgood. }
      rewrite <- Hp1 in Hd.
      specialize (IHT ps1 (c :: seen) rest [] _ _ restN HG1 Hd Hwi Hwp Hnn (or_introl eq_refl) HM1 Hgood1 Hnlb1).
      rewrite Hst in IHT.
      destruct (run_items PE body ps1) as [[ps2 evs] ok]. destruct (ref_items R body true (aput c b (St ps))) as [st' o].
      destruct IHT as (A1 & B1 & C1 & D1 & F1 & (vu' & A' & V' & HG2 & Hvu' & (An & EA & HAn) & Hgd)).
      rewrite visits_load.
      assert (Hfin : ok = true /\ p_pauses ps2 = p_pauses ps /\ St ps2 = st' /\ Er ps2 = Er ps ++ merrs o /\ visits_of evs = ovisits o /\
               exists vu'0 A'0 V'0, PG2 t0 R (snd (emit_items R body (c :: seen))) rest vu'0 A'0 V'0 (p_x ps2) /\
                 (vu'0 = [] \/ In vu'0 (tpaths (LNode p c body))) /\
                 (exists An0, A'0 = A ++ An0 /\ forall q c0 ok0, In (q, c0, ok0) An0 -> In q (tpaths (LNode p c body))) /\ good (pcs A'0 ++ restN)).
      { split; [exact A1|]. split; [congruence|]. split; [exact C1|]. split; [congruence|]. split; [exact F1|].
        exists vu', A', V'. split; [exact HG2|]. split; [|split; [|exact Hgd]].
        - destruct Hvu' as [Hv|[Hv|Hv]]; [left; exact Hv | left; exact Hv | right; cbn; now right].
        - exists ((p, c, true) :: An). split; [rewrite EA, <- app_assoc; reflexivity|].
          intros q c0 ok0 [Hin|Hin]; [inversion Hin; subst; cbn; now left | cbn; right; now apply (HAn q c0 ok0)]. }
      destruct (aget c (St ps)); exact Hfin.
    - (* the responder lacks the block *)
      assert (Hpne : p <> []) by (destruct Hrt as [Hrt|Hrt]; [exact Hrt | exfalso; now apply Hrt]).
      rewrite (emit_missing R p c body seen ER) in HG |- *. cbn [fst snd app] in HG |- *.
      set (it := {| i_link := c; i_act := Missing; i_blk := None |}) in *.
      assert (Hh : is_head R it c seen) by (split; [reflexivity | right; auto]).
      destruct (pstepT seen it _ vu A V ps p c HG Hd Hh Hup Hg1 HMp) as (ps1 & a & Ep & Hp1 & HG1 & Hb).
      cbn [i_act did_follow i_blk it] in HG1, Hb. unfold seen_step in HG1. cbn [i_act it] in HG1.
      destruct Hb as (-> & Hst & Her). rewrite Ep.
      unfold local_ans, local_errs in *. destruct (aget c (St ps)) as [b0|] eqn:Eg.
      + (* held locally: everything below is local *)
        cbn [andb] in Hnlb. cbn [ans_ok] in HG1.
        pose proof (simIF2_all body ps1 seen rest p _ _ restN HG1) as HF.
        rewrite <- Hp1 in Hd. specialize (HF Hd Hwi Hpne).
        assert (Hbl : forall q, In q (ipaths body) -> proper_prefix p q = true).
        { intros q Hq. pose proof (below_parent p c body Hw) as Hf. rewrite Forall_forall in Hf. now apply Hf. }
        assert (Hgood1 : good (pcs (A ++ [(p, c, true)]) ++ inodes body ++ restN)) by (rewrite pcs_snoc, <- app_assoc; exact Hgood).
        rewrite <- Hst in Hnlb. specialize (HF Hbl Hgood1 Hnlb). rewrite Hst in HF.
        destruct (run_items PE body ps1) as [[ps2 evs] ok]. destruct (ref_items R body false (St ps)) as [st' o].
        destruct HF as (A1 & B1 & C1 & D1 & F1 & G1 & (A' & HG2 & (An & EA & HAn) & Hgd)).
        rewrite visits_load. rewrite app_nil_r in Her.
        split; [exact A1|]. split; [congruence|]. split; [exact C1|]. split; [congruence|]. split; [exact G1|].
        exists p, A', (V ++ [(p, c)]). split; [exact HG2|]. split; [right; cbn; now left|]. split; [|exact Hgd].
        exists ((p, c, true) :: An). split; [rewrite EA, <- app_assoc; reflexivity|].
        intros q c0 ok0 [Hin|Hin]; [inversion Hin; subst; cbn; now left | cbn; right; now apply (HAn q c0 ok0)].
      + (* missing on both sides *)
        cbn [ans_ok] in HG1. cbn [visits_of ovisits merrs omissing map fst snd].
        split; [reflexivity|]. split; [exact Hp1|]. split; [exact Hst|]. split; [exact Her|]. split; [reflexivity|].
        exists p, (A ++ [(p, c, false)]), (V ++ [(p, c)]). split; [exact HG1|]. split; [right; cbn; now left|]. split.
        * exists [(p, c, false)]. split; [reflexivity|]. intros q c0 ok0 [Hin|[]]. inversion Hin; subst. cbn. now left.
        * rewrite pcs_snoc. apply (good_del (pcs A ++ [(p, c)]) (inodes body) restN). rewrite <- app_assoc. exact Hgood.
  Qed.

  Lemma simIT2_nil : SimIT2 INil.
  Proof.
    intros ps seen rest vu A V restN HG Hd _ _ _ _ _ Hgood _. cbn in *. rewrite app_nil_r. repeat split; auto.
    exists vu, A, V. split; [exact HG|]. split; [now left|]. split; [exists []; split; [now rewrite app_nil_r | intros q c ok []] | exact Hgood].
  Qed.

  Lemma simIT2_visit v r : SimIT2 r -> SimIT2 (IVisit v r).
  Proof.
    intros IH ps seen rest vu A V restN HG Hd Hw Hp Hn Hu HM Hgood Hnlb. rewrite run_items_visit, ref_items_visit.
    rewrite emit_items_visit in *. specialize (IH ps seen rest vu A V restN HG Hd Hw Hp Hn Hu HM Hgood Hnlb).
    destruct (run_items PE r ps) as [[ps2 evs] ok]. destruct (ref_items R r true (St ps)) as [st' o].
    destruct IH as (A1 & B1 & C1 & D1 & F1 & G1). cbn [visits_of ovisits]. rewrite merrs_visit, F1. auto 10.
  Qed.

  Lemma simIT2_child t r : SimT2 t -> SimIT2 r -> SimIT2 (IChild t r).
  Proof.
    intros IHt IHr ps seen rest0 vu A V restN HG Hd Hw Hp Hn Hu HM Hgood Hnlb. rewrite run_items_child, ref_items_child.
    rewrite emit_items_child in HG |- *.
    destruct (emit_tree R t seen) as [a s1] eqn:Ea. destruct (emit_items R r s1) as [b s2] eqn:Eb.
    cbn [fst snd] in *. rewrite <- app_assoc in HG.
    cbn in Hw. apply andb_true_iff in Hw as [Hwt Hwr].
    cbn in Hp. apply andb_true_iff in Hp as [Hpt Hpr].
    assert (Hnt : tpath t <> []) by (apply Hn; cbn; now left).
    assert (Hut : vu = [] \/ forall q, In q (tpaths t) -> proper_prefix vu q = false).
    { destruct Hu as [Hu|Hu]; [now left | right]. intros q Hin. apply Hu. cbn. apply in_app_iff. now left. }
    assert (HMt : McA A (tpaths t)).
    { intros q c' ok' Hin Hpr' q' Hq'. apply (HM q c' ok' Hin Hpr'). cbn. apply in_app_iff. now left. }
    cbn [inodes] in Hgood. rewrite <- app_assoc in Hgood.
    cbn [nlb_items] in Hnlb. apply andb_true_iff in Hnlb as [Hnt1 Hnr1].
    specialize (IHt ps seen (b ++ rest0) vu A V (inodes r ++ restN)). rewrite Ea in IHt. cbn [fst snd] in IHt.
    specialize (IHt HG Hd Hwt (or_introl Hnt) Hut HMt Hgood Hnt1).
    destruct (run_tree PE t ps) as [[ps1 e1] ok1]. destruct (ref_tree R t true (St ps)) as [st1 o1].
    destruct IHt as (A1 & B1 & C1 & D1 & F1 & (vu1 & A' & V' & HG1 & Hvu1 & (An & EA & HAn) & Hgd1)). subst ok1.
    assert (Hu1 : vu1 = [] \/ forall q, In q (ipaths r) -> proper_prefix vu1 q = false).
    { destruct Hvu1 as [J|J]; [now left | right]. intros q Hq. apply (sibling_sep t r vu1 q Hwt Hwr Hpt J Hq). }
    assert (Hn1 : forall q, In q (child_paths r) -> q <> []) by (intros q Hin; apply Hn; cbn; now right).
    assert (HMr : McA A' (ipaths r)).
    { intros q c' ok' Hin Hpr' q' Hq'. rewrite EA in Hin. apply in_app_iff in Hin as [Hin|Hin].
      - apply (HM q c' ok' Hin Hpr'). cbn. apply in_app_iff. now right.
      - apply (sibling_sep t r q q' Hwt Hwr Hpt (HAn q c' ok' Hin) Hq'). }
    cbn [fst] in Hnr1. rewrite <- C1 in Hnr1. rewrite <- B1 in Hd.
    specialize (IHr ps1 s1 rest0 vu1 A' V' restN). rewrite Eb in IHr. cbn [fst snd] in IHr.
    specialize (IHr HG1 Hd Hwr Hpr Hn1 Hu1 HMr Hgd1 Hnr1). rewrite C1 in IHr.
    destruct (run_items PE r ps1) as [[ps2 e2] ok2]. destruct (ref_items R r true st1) as [st2 o2].
    destruct IHr as (A2 & B2 & C2 & D2 & F2 & (vu2 & A2' & V2' & HG2 & Hvu2 & (An2 & EA2 & HAn2) & Hgd2)).
    split; [exact A2|]. split; [congruence|]. split; [exact C2|].
    split; [rewrite D2, D1, merrs_app, app_assoc; reflexivity|]. split; [rewrite visits_of_app, ovisits_app; congruence|].
    exists vu2, A2', V2'. split; [exact HG2|]. split; [|split; [|exact Hgd2]].
    - destruct Hvu2 as [J2|[J2|J2]].
      + rewrite J2. destruct Hvu1 as [J|J]; [right; left; exact J | right; right; cbn; apply in_app_iff; now left].
      + right; left; exact J2.
      + right; right; cbn; apply in_app_iff; now right.
    - exists (An ++ An2). split; [rewrite EA2, EA, <- app_assoc; reflexivity|].
      intros q c0 ok0 Hin. cbn. apply in_app_iff. apply in_app_iff in Hin as [Hin|Hin]; [left; now apply (HAn q c0 ok0) | right; now apply (HAn2 q c0 ok0)].
  Qed.

  Theorem sim2_all : (forall t, SimT2 t) /\ (forall l, SimIT2 l).
  Proof.
    apply (ltree_items_ind SimT2 SimIT2).
    - intros p c body IH. now apply simT2_node.
    - apply simIT2_nil.
    - intros v r IH. now apply simIT2_visit.
    - intros t IHt r IHr. now apply simIT2_child.
  Qed.
End GSim.

Theorem c06_after_general t L R sizes sched pauses :
  wf_plan t = true -> contiguous t = true -> agree R L -> aget (root_cid t) R <> None ->
  no_local_below_missing t L R = true -> drained pauses = true ->
  paused_outcome t L R sizes sched pauses = ref_outcome t L R.
Proof.
  intros Hwf Hct Hag Hroot Hnlb Hdr.
  assert (Hwt : wf_tree t = true) by (unfold wf_plan in Hwf; destruct (tpath t); [exact Hwf | discriminate]).
  unfold paused_outcome, ref_outcome, run_paused.
  set (ps0 := Build_pstate (x_init L [] sched) pauses).
  change (run_tree (pexec_ask proper_prefix (honest t R sizes) 0 false) t {| p_x := x_init L [] sched; p_pauses := pauses |})
    with (run_tree (pexec_ask proper_prefix (honest t R sizes) 0 false) t ps0).
  destruct (sim2_all t R sizes Hroot) as [HT _].
  assert (HG0 : PG2 t R [] (fst (emit_tree R t []) ++ []) [] [] [] (p_x ps0)).
  { rewrite app_nil_r. split.
    - exists []. unfold base2, ps0, x_init. cbn [p_x x_cancelled x_errs x_rl x_nblocks x_store app map length].
      split; [reflexivity|]. split; [reflexivity|]. split; [reflexivity|]. split; [reflexivity|]. split; [reflexivity|].
      split; [intro c0; reflexivity|]. split; [intros c0 []|]. split; [exact Hag|]. split; [apply rec_ok_nil|].
      split; [cbn; lia|]. split; [now left | intros q c0 []].
    - right. unfold phO2, offl, stq, unf, lon, ruok, ps0, x_init. cbn.
      split; [auto 10|]. split; [exists (fst (emit_tree R t [])); reflexivity|]. split; [exact I|]. split; [congruence | now left]. }
  assert (Hgood : good ([] ++ tnodes t ++ [])).
  { cbn [app]. rewrite app_nil_r. split; [|exact Hct].
    apply orderedb_of_FOP. rewrite (proj1 tnodes_paths). now apply (proj1 paths_ordered). }
  specialize (HT t ps0 [] [] [] [] [] [] HG0 Hdr Hwt (or_intror Hroot) (or_introl eq_refl)
                ltac:(intros q c' ok' []) Hgood Hnlb).
  destruct (run_tree (pexec_ask proper_prefix (honest t R sizes) 0 false) t ps0) as [[ps' evs] ok].
  change (x_store (p_x ps0)) with L in HT. destruct (ref_tree R t true L) as [st' o].
  destruct HT as (A1 & B1 & C1 & D1 & F1 & (vu' & A' & V' & HG & _)). subst ok.
  destruct HG as [(PN & (Hcan & _)) _].
  unfold outcome_of, final_errs. cbn [fst snd o_visits o_missing o_other_errs o_store o_complete]. rewrite Hcan, D1, F1, C1.
  change (x_errs (p_x ps0)) with (@nil lerror). cbn [app]. rewrite missing_of_merrs, length_merrs. f_equal. lia.
Qed.
