(* C20Tracker.v — C20, responder side: two responses over the shared link tracker, interleaved in any order.
   If the two requests are in different deduplication scopes, or the links they traverse with a block are
   disjoint, the send decisions made for each are those it would get alone, namely
   "has block && past the skipped prefix && not yet traversed with its block by this request".
   Spec level (LinkTracker.spec_step) and, through the refinement of LinkTrackerProofs, the model (lrun). *)
From Coq Require Import List NArith Bool Lia.
From GS Require Import Base LinkTracker LinkTrackerProofs.
Import ListNotations.
Open Scope N_scope.

(* ---------- spec runs with their outputs ---------- *)
Fixpoint srun (sp : spec) (ops : list lop) : option (list lout) :=
  match ops with
  | [] => Some []
  | o :: r => match spec_step sp o with
              | Some (sp', out) => match srun sp' r with Some outs => Some (out :: outs) | None => None end
              | None => None
              end
  end.

Lemma lrun_srun : forall ops s sp outs, R s sp -> srun sp ops = Some outs -> map lo_out (fst (lrun s ops)) = outs.
Proof.
  induction ops as [|o ops IH]; intros s sp outs HR Hs; cbn [srun] in Hs.
  - inversion Hs. reflexivity.
  - destruct (spec_step sp o) as [[sp' out]|] eqn:Es; [|discriminate].
    destruct (srun sp' ops) as [outs'|] eqn:Er; [|discriminate]. inversion Hs; subst.
    destruct (lstep_refines s sp o sp' out HR Es) as (s' & El & HR'). cbn [lrun]. rewrite El.
    specialize (IH s' sp' outs' HR' Er). destruct (lrun s' ops) as [obsr okr]. cbn [fst map lo_out] in *. now rewrite IH.
Qed.

(* the send decisions for request r *)
Fixpoint decl (r : req) (ops : list lop) (outs : list lout) : list bool :=
  match ops, outs with
  | LRecord r' _ _ :: ops', o :: outs' =>
      if N.eqb r r' then (match o with OSend d _ => d | _ => false end) :: decl r ops' outs' else decl r ops' outs'
  | _ :: ops', _ :: outs' => decl r ops' outs'
  | _, _ => []
  end.

Definition op_req (o : lop) : req :=
  match o with LDedup r _ | LIgnore r _ | LSkip r _ | LRecord r _ _ | LFinish r => r end.

(* ---------- one request's progress, independent of the spec's list representation ---------- *)
Record vst := { v_started : bool; v_done : bool; v_ent : sreq }.
Definition act (v : vst) : option sreq := if v_started v && negb (v_done v) then Some (v_ent v) else None.
Definition vnew (r : req) : vst := {| v_started := false; v_done := false; v_ent := sfresh r |}.

Definition vstep (v : vst) (o : lop) : vst :=
  let x := v_ent v in
  match o with
  | LDedup r k => {| v_started := true; v_done := false;
                     v_ent := {| s_id := r; s_scope := Some k; s_with := []; s_miss := false; s_count := 0; s_skip := 0 |} |}
  | LIgnore r ls => {| v_started := true; v_done := false;
                       v_ent := {| s_id := r; s_scope := s_scope x; s_with := s_with x ++ ls; s_miss := s_miss x;
                                   s_count := s_count x; s_skip := s_skip x |} |}
  | LSkip r n => {| v_started := true; v_done := false;
                    v_ent := {| s_id := r; s_scope := s_scope x; s_with := s_with x; s_miss := s_miss x;
                                s_count := s_count x; s_skip := n |} |}
  | LRecord r l has => {| v_started := true; v_done := false;
                          v_ent := {| s_id := r; s_scope := s_scope x; s_with := if has then s_with x ++ [l] else s_with x;
                                      s_miss := s_miss x || negb has; s_count := s_count x + 1; s_skip := s_skip x |} |}
  | LFinish r => {| v_started := true; v_done := true; v_ent := x |}
  end.
(* the decision the request would get alone *)
Definition vbit (v : vst) (o : lop) : bool :=
  let x := v_ent v in
  match o with
  | LRecord _ l has => has && (s_skip x <? s_count x + 1) && negb (existsb (N.eqb l) (s_with x))
  | _ => false
  end.
Fixpoint rdec (v : vst) (ops : list lop) : list bool :=
  match ops with
  | [] => []
  | (LRecord _ _ _ as o) :: t => vbit v o :: rdec (vstep v o) t
  | o :: t => rdec (vstep v o) t
  end.

Section Two.
  Variables r1 r2 : req.
  Hypothesis Hne : r1 <> r2.

  Definition MInv (sp : spec) (v1 v2 : vst) : Prop :=
    NoDup (ids sp) /\
    forall r', sfind r' sp = if N.eqb r' r1 then act v1 else if N.eqb r' r2 then act v2 else None.

  Definition hhv (sc : option dkey) (l : link) (v : vst) : bool :=
    match act v with Some y => scope_eqb (s_scope y) sc && existsb (N.eqb l) (s_with y) | None => false end.

  Lemma held_two sp v1 v2 sc l :
    MInv sp v1 v2 -> s_id (v_ent v1) = r1 -> s_id (v_ent v2) = r2 ->
    held sc l sp = hhv sc l v1 || hhv sc l v2.
  Proof.
    intros [Hn Hf] H1 H2. unfold held.
    apply eq_true_iff_eq. rewrite existsb_exists, orb_true_iff. split.
    - intros (x & Hin & Hx). pose proof (in_sfind x sp Hn Hin) as Hs. rewrite Hf in Hs.
      unfold hhv. destruct (N.eqb (s_id x) r1); [left; rewrite Hs; exact Hx|].
      destruct (N.eqb (s_id x) r2); [right; rewrite Hs; exact Hx | discriminate].
    - unfold hhv. intros [H|H].
      + destruct (act v1) as [y|] eqn:Ea; [|discriminate]. exists y. split; [|exact H].
        assert (Hy : y = v_ent v1) by (unfold act in Ea; destruct (v_started v1 && negb (v_done v1)); now inversion Ea).
        specialize (Hf r1). rewrite N.eqb_refl in Hf. apply sfind_in in Hf. tauto.
      + destruct (act v2) as [y|] eqn:Ea; [|discriminate]. exists y. split; [|exact H].
        specialize (Hf r2). rewrite N.eqb_refl in Hf. destruct (N.eqb_spec r2 r1) as [E|_]; [congruence|].
        apply sfind_in in Hf. tauto.
  Qed.

  Lemma minv_sput sp v1 v2 v1' :
    MInv sp v1 v2 -> s_id (v_ent v1') = r1 -> act v1' = Some (v_ent v1') -> MInv (sput (v_ent v1') sp) v1' v2.
  Proof.
    intros [Hn Hf] Hid Ha. split; [now apply nodup_sput|]. intro r'. rewrite sfind_sput, Hid, Hf.
    rewrite (N.eqb_sym r1 r'). destruct (N.eqb r' r1); [now rewrite Ha | reflexivity].
  Qed.
  Lemma minv_sdel sp v1 v2 v1' : MInv sp v1 v2 -> act v1' = None -> MInv (sdel r1 sp) v1' v2.
  Proof.
    intros [Hn Hf] Ha. split; [now apply nodup_sdel|]. intro r'. rewrite sfind_sdel, Hf.
    rewrite (N.eqb_sym r1 r'). destruct (N.eqb r' r1); [now rewrite Ha | reflexivity].
  Qed.
  Lemma minv_sget sp v1 v2 : MInv sp v1 v2 -> v_done v1 = false ->
    (v_started v1 = false -> v_ent v1 = sfresh r1) -> sget r1 sp = v_ent v1.
  Proof.
    intros [Hn Hf] Hd Hs. unfold sget. rewrite Hf, N.eqb_refl. unfold act. rewrite Hd.
    destruct (v_started v1); cbn; [reflexivity | now rewrite Hs].
  Qed.
End Two.

Lemma minv_swap r1 r2 sp v1 v2 : r1 <> r2 -> MInv r1 r2 sp v1 v2 -> MInv r2 r1 sp v2 v1.
Proof.
  intros Hne [Hn Hf]. split; [exact Hn|]. intro r'. rewrite Hf.
  destruct (N.eqb_spec r' r1) as [E1|E1]; destruct (N.eqb_spec r' r2) as [E2|E2]; try reflexivity. congruence.
Qed.

(* ---------- the ops of one response as prepareQuery / the traversal / FinishTracking issue them ---------- *)
Section Ops.
  Variable r : req.
  Variable d : option dkey.
  Variable W : list link.          (* the links it may traverse with a block *)

  Fixpoint okops (started : bool) (ops : list lop) : Prop :=
    match ops with
    | [] => True
    | LDedup r' k :: t => r' = r /\ started = false /\ d = Some k /\ okops true t
    | LSkip r' n :: t => r' = r /\ (started = true \/ d = None) /\ okops true t
    | LRecord r' l has :: t => r' = r /\ (started = true \/ d = None) /\ (has = true -> In l W) /\ okops true t
    | LFinish r' :: t => r' = r /\ (started = true \/ d = None) /\ t = []
    | LIgnore _ _ :: _ => False
    end.

  Definition vinv (v : vst) : Prop :=
    s_id (v_ent v) = r /\ (v_started v = false -> v_ent v = sfresh r /\ v_done v = false) /\
    (v_started v = true -> s_scope (v_ent v) = d) /\ incl (s_with (v_ent v)) W.

  Lemma vinv_new : vinv (vnew r).
  Proof. unfold vinv, vnew. cbn. repeat split; auto; try discriminate. intros x []. Qed.
End Ops.

Section Step.
  Variables r1 r2 : req.
  Hypothesis Hne : r1 <> r2.
  Variables d1 d2 : option dkey.
  Variables W1 W2 : list link.
  (* different scopes, or no common link *)
  Hypothesis Hdisj : d1 <> d2 \/ (forall l, In l W1 -> In l W2 -> False).

  Lemma other_not_holding v1 v2 l :
    vinv r1 d1 W1 v1 -> vinv r2 d2 W2 v2 -> (v_started v1 = true \/ d1 = None) -> In l W1 ->
    hhv (s_scope (v_ent v1)) l v2 = false.
  Proof.
    intros (I1 & F1 & S1 & _) (I2 & F2 & S2 & C2) Hst Hl. unfold hhv, act.
    destruct (v_started v2) eqn:E2; cbn [andb]; [|reflexivity]. destruct (negb (v_done v2)); [|reflexivity].
    assert (Hsc : s_scope (v_ent v1) = d1).
    { destruct (v_started v1) eqn:E1; [now apply S1|]. destruct Hst as [Hst|Hst]; [discriminate|].
      destruct (F1 eq_refl) as [-> _]. cbn. now symmetry. }
    rewrite Hsc, (S2 eq_refl).
    destruct (scope_eqb d2 d1) eqn:Esc; [|reflexivity]. apply scope_eqb_eq in Esc.
    destruct (existsb (N.eqb l) (s_with (v_ent v2))) eqn:Ex; [|reflexivity].
    apply existsb_eqb_in' in Ex. destruct Hdisj as [Hd|Hd]; [congruence|]. exfalso. apply (Hd l Hl). now apply C2.
  Qed.

  (* one call of request 1 in the presence of request 2 *)
  Lemma step_one sp v1 v2 o t :
    MInv r1 r2 sp v1 v2 -> vinv r1 d1 W1 v1 -> vinv r2 d2 W2 v2 -> v_done v1 = false ->
    okops r1 d1 W1 (v_started v1) (o :: t) ->
    exists sp' out, spec_step sp o = Some (sp', out) /\
      MInv r1 r2 sp' (vstep v1 o) v2 /\ vinv r1 d1 W1 (vstep v1 o) /\ okops r1 d1 W1 true t /\
      (v_done (vstep v1 o) = true -> t = []) /\
      match o with LRecord _ _ _ => out = OSend (vbit v1 o) (s_count (v_ent v1) + 1) | _ => True end.
  Proof.
    intros HM HV1 HV2 Hd Hok. pose proof HV1 as (I1 & F1 & S1 & C1). pose proof HV2 as (I2 & _).
    assert (Hget : sget r1 sp = v_ent v1).
    { apply (minv_sget r1 r2 sp v1 v2 HM Hd). intro Hs. now destruct (F1 Hs). }
    destruct o as [r k|r ls|r n|r l has|r]; cbn [okops] in Hok.
    - destruct Hok as (-> & Hs & Hdk & Hok). cbn [spec_step].
      destruct HM as [Hn Hf]. pose proof (Hf r1) as Hf1. rewrite N.eqb_refl in Hf1. unfold act in Hf1. rewrite Hs in Hf1. cbn in Hf1.
      rewrite Hf1. eexists. eexists. split; [reflexivity|].
      split; [apply (minv_sput r1 r2 sp v1 v2 (vstep v1 (LDedup r1 k)) (conj Hn Hf)); reflexivity|].
      split; [|split; [exact Hok|split; [discriminate | exact I]]].
      unfold vinv. cbn. repeat split; auto; try discriminate. intros x [].
    - contradiction.
    - destruct Hok as (-> & Hs & Hok). cbn [spec_step]. rewrite Hget. eexists. eexists. split; [reflexivity|].
      split; [apply (minv_sput r1 r2 sp v1 v2 (vstep v1 (LSkip r1 n)) HM); reflexivity|].
      split; [|split; [exact Hok|split; [discriminate | exact I]]].
      unfold vinv. cbn. repeat split; auto; try discriminate.
      intros _. destruct (v_started v1) eqn:E; [now apply S1|]. destruct Hs as [Hs|Hs]; [discriminate|].
      destruct (F1 eq_refl) as [-> _]. cbn. now symmetry.
    - destruct Hok as (-> & Hs & Hw & Hok). cbn [spec_step]. rewrite Hget. eexists. eexists. split; [reflexivity|].
      split; [apply (minv_sput r1 r2 sp v1 v2 (vstep v1 (LRecord r1 l has)) HM); reflexivity|].
      split; [|split; [exact Hok|split; [discriminate|]]].
      + unfold vinv. cbn. repeat split; auto; try discriminate.
        * intros _. destruct (v_started v1) eqn:E; [now apply S1|]. destruct Hs as [Hs|Hs]; [discriminate|].
          destruct (F1 eq_refl) as [-> _]. cbn. now symmetry.
        * destruct has; [|exact C1]. intros x Hx. apply in_app_iff in Hx as [Hx|[<-|[]]]; [now apply C1 | now apply Hw].
      + f_equal. unfold vbit. rewrite (held_two r1 r2 Hne sp v1 v2 _ l HM I1 I2).
        destruct has; cbn [andb]; [|reflexivity].
        rewrite (other_not_holding v1 v2 l HV1 HV2 Hs (Hw eq_refl)), orb_false_r.
        unfold hhv, act. rewrite Hd. destruct (v_started v1) eqn:E; cbn [andb negb].
        * now rewrite scope_eqb_refl.
        * destruct (F1 eq_refl) as [-> _]. cbn. reflexivity.
    - destruct Hok as (-> & Hs & ->). cbn [spec_step]. eexists. eexists. split; [reflexivity|].
      split; [apply (minv_sdel r1 r2 sp v1 v2 (vstep v1 (LFinish r1)) HM); reflexivity|].
      split; [|split; [exact I|split; [reflexivity | exact I]]].
      unfold vinv. cbn. repeat split; auto; try discriminate.
      intros _. destruct (v_started v1) eqn:E; [now apply S1|]. destruct Hs as [Hs|Hs]; [discriminate|].
      destruct (F1 eq_refl) as [-> _]. cbn. now symmetry.
  Qed.
End Step.
