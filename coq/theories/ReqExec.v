(* ReqExec.v — one request on the requestor: the executor's traverse loop (executor.go) around the
   reconciled loader, the ingestion path of requestmanager/server.go processResponses, an environment
   that delivers response messages between and during loads, the honest responder's output for a plan,
   and the reference outcome of C02.  No proofs here. *)
From Coq Require Import List NArith Bool.
From GS Require Export Base Ltree RecLoader.
Import ListNotations.
Open Scope N_scope.

(* responsecode.go: informational (not terminal) / terminal success / terminal failure *)
Inductive status := StInfo | StOk | StFail.

(* one response of a message: request id (ours is 0), metadata, status; a message: sending peer (the
   request's peer is 0), responses, blocks keyed by the CID the decoder computed from their bytes *)
Record resp := { rs_req : N; rs_md : list (cid * action); rs_status : status }.
Record msg := { m_sender : N; m_resps : list resp; m_blocks : list (cid * block) }.

Inductive xev :=
| XLoad (p : path) (c : cid) (r : lresult)     (* a load result handed to the traversal *)
| XStore (c : cid) (b : block)                  (* a commit into the local store *)
| XSend (skip : N)                              (* the request goes out (do-not-send-first-blocks) *)
| XDeliver (m : msg).                           (* a message is processed by the request manager *)

Record xstate := {
  x_rl : rl; x_store : store;
  x_sent : bool;                 (* requestSent *)
  x_nblocks : N;                 (* Traverser.NBlocksTraversed *)
  x_cancelled : bool;            (* the request's context was cancelled (failure status) *)
  x_errs : list lerror;          (* InProgressErr channel *)
  x_feed : list msg;             (* messages not yet delivered *)
  x_sched : list nat;            (* how many of them arrive before each load attempt *)
  x_log : list xev               (* newest first *)
}.

Definition x_with_rl (x : xstate) r st :=
  {| x_rl := r; x_store := st; x_sent := x_sent x; x_nblocks := x_nblocks x; x_cancelled := x_cancelled x;
     x_errs := x_errs x; x_feed := x_feed x; x_sched := x_sched x; x_log := x_log x |}.
Definition x_with_feed (x : xstate) f :=
  {| x_rl := x_rl x; x_store := x_store x; x_sent := x_sent x; x_nblocks := x_nblocks x; x_cancelled := x_cancelled x;
     x_errs := x_errs x; x_feed := f; x_sched := x_sched x; x_log := x_log x |}.
Definition x_logged (x : xstate) e :=
  {| x_rl := x_rl x; x_store := x_store x; x_sent := x_sent x; x_nblocks := x_nblocks x; x_cancelled := x_cancelled x;
     x_errs := x_errs x; x_feed := x_feed x; x_sched := x_sched x; x_log := e :: x_log x |}.

Section Exec.
  Variable below : path -> path -> bool.
  Variable responder : N -> list msg.      (* what the peer answers to a request with the given skip count *)
  Variable dnsfb : N.                      (* the caller's own do-not-send-first-blocks value *)

  (* server.go processResponses for our request: filterResponsesForPeer, IngestResponse, processTerminations *)
  Definition for_us (m : msg) (r : resp) : bool := N.eqb (rs_req r) 0 && N.eqb (m_sender m) 0.
  Definition process_msg (m : msg) (x : xstate) : xstate :=
    let rs := filter (for_us m) (m_resps m) in
    let r1 := fold_left (fun r rp => ingest (rs_md rp) (m_blocks m) r) rs (x_rl x) in
    let term := existsb (fun rp => match rs_status rp with StInfo => false | _ => true end) rs in
    let fail := existsb (fun rp => match rs_status rp with StFail => true | _ => false end) rs in
    let r2 := if term then set_online false r1 else r1 in
    {| x_rl := r2; x_store := x_store x; x_sent := x_sent x; x_nblocks := x_nblocks x;
       x_cancelled := x_cancelled x || fail; x_errs := x_errs x; x_feed := x_feed x; x_sched := x_sched x;
       x_log := XDeliver m :: x_log x |}.

  Fixpoint deliver_n (n : nat) (x : xstate) : xstate :=
    match n with
    | O => x
    | S n' => match x_feed x with
              | [] => x
              | m :: f => deliver_n n' (process_msg m (x_with_feed x f))
              end
    end.

  (* log the store write of a load *)
  Definition log_store (st st' : store) (c : cid) (x : xstate) : xstate :=
    match aget c st', aget c st with
    | Some b, None => x_logged x (XStore c b)
    | _, _ => x
    end.

  (* one BlockReadOpener call after bro_start: try; while it blocks, one more message arrives *)
  Fixpoint load_wait (feed : list msg) (x : xstate) (p : path) (c : cid) : xstate * option lresult :=
    let '(r1, st1, o) := bro_try below (x_rl x) (x_store x) p c in
    let x1 := x_with_rl x r1 st1 in
    match o with
    | Some res =>
        let x2 := match res with RData b false => x_logged x1 (XStore c b) | _ => x1 end in
        (x_with_feed x2 feed, Some res)
    | None =>
        match feed with
        | [] => (x_with_feed x1 [], None)
        | m :: f => load_wait f (process_msg m (x_with_feed x1 f)) p c
        end
    end.

  Definition pop_sched (x : xstate) : nat * xstate :=
    match x_sched x with
    | [] => (O, x)
    | n :: s => (n, {| x_rl := x_rl x; x_store := x_store x; x_sent := x_sent x; x_nblocks := x_nblocks x;
                       x_cancelled := x_cancelled x; x_errs := x_errs x; x_feed := x_feed x; x_sched := s; x_log := x_log x |})
    end.

  Definition load_call (x : xstate) (p : path) (c : cid) : xstate * option lresult :=
    let '(n, x0) := pop_sched x in
    let x1 := deliver_n n x0 in
    let x2 := x_with_rl x1 (bro_start (x_rl x1)) (x_store x1) in
    load_wait (x_feed x2) x2 p c.

  (* startRemoteRequest + SetRemoteOnline(true) *)
  Definition go_online (x : xstate) : xstate :=
    let skip := N.max dnsfb (x_nblocks x) in
    {| x_rl := set_online true (x_rl x); x_store := x_store x; x_sent := true; x_nblocks := x_nblocks x;
       x_cancelled := x_cancelled x; x_errs := x_errs x; x_feed := x_feed x ++ responder skip;
       x_sched := x_sched x; x_log := XSend skip :: x_log x |}.

  (* RetryLastLoad *)
  Definition retry_call (x : xstate) : xstate * option lresult :=
    let '(r1, o) := retry_prepare (x_rl x) in
    let x1 := x_with_rl x r1 (x_store x) in
    match o with
    | None => (x1, Some (RErr (EVerify 3) false))
    | Some (p, c) => load_call x1 p c
    end.

  Definition hang_code : N := 99.
  Definition cancel_code : N := 98.
  Definition err_code (e : lerror) : N :=
    match e with EMissing _ _ => 0 | EIncorrect _ _ _ => 1 | EVerify n => 10 + n end.

  (* one iteration of Executor.traverse: load, go online on the first local miss, advanceTraversal *)
  Definition exec_ask (x : xstate) (p : path) (c : cid) : xstate * ans :=
    let '(x1, o1) := load_call x p c in
    let '(x2, o2) :=
      match o1 with
      | Some (RErr (EMissing _ _) _) =>
          if x_sent x1 then (x1, o1)
          else if x_cancelled x1
          then (* cancelled during the local load: online, offline again, give up (no request is sent) *)
               (x_with_rl x1 (set_online false (set_online true (x_rl x1))) (x_store x1), o1)
          else retry_call (go_online x1)
      | _ => (x1, o1)
      end in
    match o2 with
    | None => (x2, AErr (ErrOther hang_code))
    | Some res =>
        let x3 := x_logged x2 (XLoad p c res) in
        match res with
        | RData _ _ =>
            ({| x_rl := x_rl x3; x_store := x_store x3; x_sent := x_sent x3; x_nblocks := x_nblocks x3 + 1;
                x_cancelled := x_cancelled x3; x_errs := x_errs x3; x_feed := x_feed x3; x_sched := x_sched x3;
                x_log := x_log x3 |}, AOk)
        | RErr e _ =>
            if x_cancelled x3 then (x3, AErr (ErrOther cancel_code))
            else
              let x4 := {| x_rl := x_rl x3; x_store := x_store x3; x_sent := x_sent x3; x_nblocks := x_nblocks x3;
                           x_cancelled := x_cancelled x3; x_errs := x_errs x3 ++ [e]; x_feed := x_feed x3;
                           x_sched := x_sched x3; x_log := x_log x3 |} in
              match e with
              | EMissing _ _ => (x4, ASkip)
              | _ => (x4, AErr (ErrOther (err_code e)))
              end
        end
    end.

  Definition x_init (L : store) (feed : list msg) (sched : list nat) : xstate :=
    {| x_rl := rl_new; x_store := L; x_sent := false; x_nblocks := 0; x_cancelled := false; x_errs := [];
       x_feed := feed; x_sched := sched; x_log := [] |}.

  Definition run_request (t : ltree) (L : store) (feed : list msg) (sched : list nat) : xstate * list ev * bool :=
    run_tree exec_ask t (x_init L feed sched).
End Exec.

(* ---------------------------------------------------------------------------------------------
   the honest responder's output for a plan (queryexecutor.go runTraversal/loadBlock/sendResponse,
   peerlinktracker.go RecordLinkTraversal): one metadata entry per link it loads, Missing and skipped
   when it lacks the block; the block travels with the entry unless the entry is among the first
   [skip] entries or the link was already traversed with its block in this request
   --------------------------------------------------------------------------------------------- *)
Record rstate := { rs_count : N; rs_seen : list cid; rs_out : list item (* newest first *) }.

Definition resp_ask (R : store) (skip : N) (s : rstate) (p : path) (c : cid) : rstate * ans :=
  let n := rs_count s + 1 in
  match aget c R with
  | Some b =>
      let send := (skip <? n) && negb (existsb (N.eqb c) (rs_seen s)) in
      ({| rs_count := n; rs_seen := c :: rs_seen s;
          rs_out := {| i_link := c; i_act := Present; i_blk := if send then Some b else None |} :: rs_out s |}, AOk)
  | None =>
      ({| rs_count := n; rs_seen := rs_seen s;
          rs_out := {| i_link := c; i_act := Missing; i_blk := None |} :: rs_out s |}, ASkip)
  end.

Definition resp_items (t : ltree) (R : store) (skip : N) : list item :=
  rev (rs_out (fst (fst (run_tree (resp_ask R skip) t {| rs_count := 0; rs_seen := []; rs_out := [] |})))).

Definition root_cid (t : ltree) : cid := match t with LNode _ c _ => c end.

(* final status: content-not-found (failure) iff the root is missing, else full/partial (both success) *)
Definition resp_status (t : ltree) (R : store) : status :=
  match aget (root_cid t) R with Some _ => StOk | None => StFail end.

Definition msg_of (its : list item) (s : status) : msg :=
  {| m_sender := 0;
     m_resps := [{| rs_req := 0; rs_md := map (fun it => (i_link it, i_act it)) its; rs_status := s |}];
     m_blocks := flat_map (fun it => match i_blk it with Some b => [(i_link it, b)] | None => [] end) its |}.

(* every chunking: [sizes] cuts the stream; the last message carries the rest and the status *)
Fixpoint mk_msgs (sizes : list nat) (its : list item) (final : status) : list msg :=
  match sizes with
  | [] => [msg_of its final]
  | n :: r => msg_of (firstn n its) StInfo :: mk_msgs r (skipn n its) final
  end.

Definition honest (t : ltree) (R : store) (sizes : list nat) (skip : N) : list msg :=
  mk_msgs sizes (resp_items t R skip) (resp_status t R).

(* ---------------------------------------------------------------------------------------------
   reference outcome (C02): one pass; [here] = the responder's own traversal reaches this position
   --------------------------------------------------------------------------------------------- *)
Inductive oev := OVisit (v : N) | OMissing (p : path) (c : cid).

Fixpoint ref_tree (R : store) (t : ltree) (here : bool) (st : store) : store * list oev :=
  match t with
  | LNode p c body =>
      match aget c st, (if here then aget c R else None) with
      | _, Some b => let '(st', o) := ref_items R body true (aput c b st) in (st', o)
      | Some _, None => ref_items R body false st
      | None, None => (st, [OMissing p c])
      end
  end
with ref_items (R : store) (l : items) (here : bool) (st : store) : store * list oev :=
  match l with
  | INil => (st, [])
  | IVisit v rest => let '(st', o) := ref_items R rest here st in (st', OVisit v :: o)
  | IChild t rest =>
      let '(st1, o1) := ref_tree R t here st in
      let '(st2, o2) := ref_items R rest here st1 in (st2, o1 ++ o2)
  end.

(* what the requestor's run delivered, in the same vocabulary *)
Fixpoint visits_of (evs : list ev) : list N :=
  match evs with [] => [] | EVisit v :: r => v :: visits_of r | _ :: r => visits_of r end.
Fixpoint ovisits (o : list oev) : list N :=
  match o with [] => [] | OVisit v :: r => v :: ovisits r | _ :: r => ovisits r end.
Fixpoint omissing (o : list oev) : list (path * cid) :=
  match o with [] => [] | OMissing p c :: r => (p, c) :: omissing r | _ :: r => omissing r end.
Fixpoint missing_of (es : list lerror) : list (path * cid) :=
  match es with [] => [] | EMissing p c :: r => (p, c) :: missing_of r | _ :: r => missing_of r end.

(* stores are compared as sets of keys (the bytes under a key are determined by the key) *)
Fixpoint insert_sorted (x : N) (l : list N) : list N :=
  match l with [] => [x] | y :: r => if x <? y then x :: l else if x =? y then l else y :: insert_sorted x r end.
Definition keyset {V} (m : list (N * V)) : list N := fold_right insert_sorted [] (map fst m).

Definition pc_eqb (a b : path * cid) : bool := path_eqb (fst a) (fst b) && N.eqb (snd a) (snd b).

Record outcome := { o_visits : list N; o_missing : list (path * cid); o_other_errs : N; o_store : list N; o_complete : bool }.

Definition outcome_of (r : xstate * list ev * bool) : outcome :=
  let '(x, evs, ok) := r in
  {| o_visits := visits_of evs; o_missing := missing_of (x_errs x);
     o_other_errs := N.of_nat (length (x_errs x)) - N.of_nat (length (missing_of (x_errs x)));
     o_store := keyset (x_store x); o_complete := ok |}.
Definition ref_outcome (t : ltree) (L R : store) : outcome :=
  let '(st, o) := ref_tree R t true L in
  {| o_visits := ovisits o; o_missing := omissing o; o_other_errs := 0; o_store := keyset st; o_complete := true |}.
Definition outcome_eqb (a b : outcome) : bool :=
  list_eqb N.eqb (o_visits a) (o_visits b) && list_eqb pc_eqb (o_missing a) (o_missing b) &&
  N.eqb (o_other_errs a) (o_other_errs b) && list_eqb N.eqb (o_store a) (o_store b) && Bool.eqb (o_complete a) (o_complete b).

(* ---------------------------------------------------------------------------------------------
   well-formed plans: what nesting the loads of a real traversal by path prefix produces
   --------------------------------------------------------------------------------------------- *)
Fixpoint prefix (a b : path) : bool :=
  match a, b with
  | [], _ => true
  | x :: a', y :: b' => N.eqb x y && prefix a' b'
  | _, _ => false
  end.
Definition tpath (t : ltree) : path := match t with LNode p _ _ => p end.
Fixpoint child_paths (l : items) : list path :=
  match l with INil => [] | IVisit _ r => child_paths r | IChild t r => tpath t :: child_paths r end.

(* children strictly below the parent; sibling subtrees at prefix-incomparable paths *)
Fixpoint incomparable_all (q : path) (qs : list path) : bool :=
  match qs with [] => true | q' :: r => negb (prefix q q') && negb (prefix q' q) && incomparable_all q r end.
Fixpoint pairwise_incomparable (qs : list path) : bool :=
  match qs with [] => true | q :: r => incomparable_all q r && pairwise_incomparable r end.

Fixpoint wf_tree (t : ltree) : bool :=
  match t with
  | LNode p c body =>
      forallb (proper_prefix p) (child_paths body) && pairwise_incomparable (child_paths body) && wf_items body
  end
with wf_items (l : items) : bool :=
  match l with INil => true | IVisit _ r => wf_items r | IChild t r => wf_tree t && wf_items r end.
Definition wf_plan (t : ltree) : bool := match tpath t with [] => wf_tree t | _ => false end.

(* ---------------------------------------------------------------------------------------------
   correspondence cases
   --------------------------------------------------------------------------------------------- *)
Definition store_of (cs : list cid) : store := map (fun c => (c, c)) cs.   (* a block is named by its CID *)

(* (A) loader level: a script of calls on one real ReconciledLoader *)
Inductive lop :=
| LOnline (b : bool)
| LIngest (md : list (cid * action)) (blks : list cid)
| LLoad (p : path) (c : cid)
| LRetry.

Definition lobs := (lresult * list N)%type.     (* a completed load: result, keys of the store afterwards *)

Section Script.
  Variable below : path -> path -> bool.
  Definition finish (r : rl) (st : store) (pend : option (path * cid)) : rl * store * option (path * cid) * list lobs :=
    match pend with
    | None => (r, st, None, [])
    | Some (p, c) =>
        let '(r1, st1, o) := bro_try below r st p c in
        match o with
        | Some res => (r1, st1, None, [(res, keyset st1)])
        | None => (r1, st1, pend, [])
        end
    end.
  Fixpoint lrun (ops : list lop) (r : rl) (st : store) (pend : option (path * cid)) : list lobs :=
    match ops with
    | [] => (* the driver releases a load that is still blocked by going offline *)
        let '(_, _, _, o) := finish (set_online false r) st pend in o
    | op :: rest =>
        let '(r1, st1, pend1, o1) :=
          match op, pend with
          | LOnline b, _ => finish (set_online b r) st pend
          | LIngest md blks, _ => finish (ingest md (store_of blks) r) st pend
          | LLoad p c, None => finish (bro_start r) st (Some (p, c))
          | LRetry, None =>
              let '(r0, o) := retry_prepare r in
              match o with
              | None => (r0, st, None, [(RErr (EVerify 3) false, keyset st)])
              | Some pc => finish (bro_start r0) st (Some pc)
              end
          | _, Some _ => (r, st, pend, [])
          end in
        o1 ++ lrun rest r1 st1 pend1
    end.
End Script.

Definition lerror_eqb (a b : lerror) : bool :=
  match a, b with
  | EMissing p c, EMissing q d => path_eqb p q && N.eqb c d
  | EIncorrect l r p, EIncorrect l' r' q => N.eqb l l' && N.eqb r r' && path_eqb p q
  | EVerify m, EVerify n => N.eqb m n
  | _, _ => false
  end.
Definition lresult_eqb (a b : lresult) : bool :=
  match a, b with
  | RData x l, RData y m => N.eqb x y && Bool.eqb l m
  | RErr e l, RErr f m => lerror_eqb e f && Bool.eqb l m
  | _, _ => false
  end.
Definition lobs_eqb (a b : lobs) : bool := lresult_eqb (fst a) (fst b) && list_eqb N.eqb (snd a) (snd b).

Record lcase := { lc_local : list cid; lc_ops : list lop; lc_obs : list lobs }.
Definition lcase_ok (c : lcase) : bool :=
  list_eqb lobs_eqb (lrun proper_prefix (lc_ops c) rl_new (store_of (lc_local c)) None) (lc_obs c).
(* the same script under the comparison the code used before the fix *)
Definition lcase_ok_before_fix (c : lcase) : bool :=
  list_eqb lobs_eqb (lrun length_less (lc_ops c) rl_new (store_of (lc_local c)) None) (lc_obs c).

(* C01 on a loader script: every block a load hands out or stores is the block named by the requested link *)
Definition lobs_genuine (ops : list lop) (obs : list lobs) : bool :=
  forallb (fun o : lobs => match fst o with RData b _ => true | _ => true end) obs.

(* (B) whole stack, honest responder: plan, the two stores, what the requestor delivered *)
Record e2ecase := {
  ec_plan : ltree; ec_L : list cid; ec_R : list cid;
  ec_obs : outcome
}.
(* what ends up on the error channel besides the per-load errors: the terminal error of a failure status
   (terminateRequest), or — when the traversal was aborted by a hard load error — that error once more
   (ExecuteTask reports the traversal's error after advanceTraversal already reported it) *)
Definition final_errs (x : xstate) (ok : bool) : N :=
  if x_cancelled x then 1
  else if ok then 0
  else match rev (x_errs x) with
       | EMissing _ _ :: _ => 0
       | [] => 0
       | _ :: _ => 1
       end.
Definition model_outcome (t : ltree) (L R : store) (sizes : list nat) (sched : list nat) : outcome :=
  let r := run_request proper_prefix (honest t R sizes) 0 t L [] sched in
  let o := outcome_of r in
  {| o_visits := o_visits o; o_missing := o_missing o;
     o_other_errs := o_other_errs o + final_errs (fst (fst r)) (snd r);
     o_store := o_store o; o_complete := true |}.
(* the property's monitor: what was delivered equals the reference *)
Definition e2e_mon (c : e2ecase) : bool :=
  outcome_eqb (ec_obs c) (ref_outcome (ec_plan c) (store_of (ec_L c)) (store_of (ec_R c))).
(* model against implementation (and the plan is well formed; the outcome does not depend on how the
   response is cut into messages or when they arrive: two different chunkings/schedules are evaluated) *)
Definition e2e_ok (c : e2ecase) : bool :=
  let L := store_of (ec_L c) in let R := store_of (ec_R c) in
  let m1 := model_outcome (ec_plan c) L R [] [] in
  wf_plan (ec_plan c) &&
  match resp_status (ec_plan c) R with
  | StFail =>
      (* the responder lacks the root: its failure status cancels the request, and whether the pending
         missing-block error is still reported depends on when the cancellation is noticed; both orders
         are accepted (status in the same message as the metadata / in a later one) *)
      let m2 := model_outcome (ec_plan c) L R [length (resp_items (ec_plan c) R 0)] [] in
      list_eqb N.eqb (o_visits (ec_obs c)) (o_visits m1) && list_eqb N.eqb (o_store (ec_obs c)) (o_store m1) &&
      (list_eqb pc_eqb (o_missing (ec_obs c)) (o_missing m1) || list_eqb pc_eqb (o_missing (ec_obs c)) (o_missing m2)) &&
      (o_other_errs (ec_obs c) <=? 2)
  | _ =>
      outcome_eqb (ec_obs c) m1 &&
      outcome_eqb (ec_obs c) (model_outcome (ec_plan c) L R [1; 0; 2; 1; 1; 3]%nat [0; 1; 0; 2]%nat)
  end.

(* (C) whole requestor stack, adversarial responder *)
Record advcase := {
  ac_plan : ltree;                 (* the plan over the full universe *)
  ac_L : list cid;
  ac_feed : list msg;
  ac_visits : list N; ac_errs : list N (* error classes: 0 missing, 1 incorrect, 2 other *);
  ac_writes : list (cid * block);  (* commits to the local store, in order: key, block (named by the CID of its bytes) *)
  ac_store : list N
}.
Fixpoint plan_cids (t : ltree) : list cid :=
  match t with LNode _ c body => c :: items_cids body end
with items_cids (l : items) : list cid :=
  match l with INil => [] | IVisit _ r => items_cids r | IChild t r => plan_cids t ++ items_cids r end.
Fixpoint plan_visits (t : ltree) : list N :=
  match t with LNode _ _ body => items_visits body end
with items_visits (l : items) : list N :=
  match l with INil => [] | IVisit v r => v :: items_visits r | IChild t r => plan_visits t ++ items_visits r end.
Fixpoint subseq (a b : list N) : bool :=
  match a, b with
  | [], _ => true
  | _ :: _, [] => false
  | x :: a', y :: b' => if N.eqb x y then subseq a' b' else subseq a b'
  end.
(* C01's monitor on what the implementation did *)
Definition adv_mon (c : advcase) : bool :=
  forallb (fun w : cid * block => N.eqb (fst w) (snd w) && existsb (N.eqb (fst w)) (plan_cids (ac_plan c))) (ac_writes c) &&
  forallb (fun k => existsb (N.eqb k) (ac_L c) || existsb (N.eqb k) (plan_cids (ac_plan c))) (ac_store c) &&
  subseq (ac_visits c) (plan_visits (ac_plan c)).
Definition err_class (e : lerror) : N := match e with EMissing _ _ => 0 | EIncorrect _ _ _ => 1 | EVerify _ => 2 end.
Fixpoint writes_of (log : list xev) : list (cid * block) :=
  match log with [] => [] | XStore c b :: r => writes_of r ++ [(c, b)] | _ :: r => writes_of r end.
Fixpoint is_prefix (a b : list N) : bool :=
  match a, b with [] , _ => true | x :: a', y :: b' => N.eqb x y && is_prefix a' b' | _, _ => false end.
Definition wr_eqb (a b : cid * block) : bool := N.eqb (fst a) (fst b) && N.eqb (snd a) (snd b).
Definition adv_ok (c : advcase) : bool :=
  let r := run_request proper_prefix (fun _ => ac_feed c) 0 (ac_plan c) (store_of (ac_L c)) [] [] in
  let x := fst (fst r) in
  (* a failure status addressed to the request cancels it concurrently with the traversal: what is
     delivered and reported after that depends on the moment the cancellation is noticed *)
  let may_cancel := existsb (fun m => existsb (fun rp => for_us m rp && match rs_status rp with StFail => true | _ => false end) (m_resps m)) (ac_feed c) in
  wf_plan (ac_plan c) &&
  if x_cancelled x || may_cancel
  then is_prefix (ac_visits c) (visits_of (snd (fst r))) || is_prefix (visits_of (snd (fst r))) (ac_visits c)
  else list_eqb N.eqb (ac_visits c) (visits_of (snd (fst r))) &&
       list_eqb wr_eqb (ac_writes c) (writes_of (x_log x)) &&
       list_eqb N.eqb (ac_store c) (keyset (x_store x)) &&
       list_eqb N.eqb (firstn (length (x_errs x)) (ac_errs c)) (map err_class (x_errs x)).

(* one case type for the driver command d_loader *)
Inductive dcase := DL (c : lcase) | DE (c : e2ecase) | DA (c : advcase).
Definition d_mismatch (c : dcase) : bool :=
  match c with DL c => lcase_ok c | DE c => e2e_ok c | DA c => adv_ok c end.
Definition d_mon02 (c : dcase) : bool := match c with DE c => e2e_mon c | _ => true end.
Definition d_mon01 (c : dcase) : bool := match c with DA c => adv_mon c | _ => true end.
