(* ReqMgrMsg.v — the requestor's handling of incoming response messages (C09).

   Transcribes, from /repo/requestmanager/server.go (as repaired by the fix commit "responses from a
   peer other than the request's ..."): processResponses, filterResponsesForPeer, processExtensions,
   processExtensionsForResponse, updateLastResponses, the ingest loop (reconciledloader/injest.go
   IngestResponse), processTerminations, cancelOnError, terminateRequest, and — so that message handling
   can be interleaved with the rest of a request's life — the other handlers of the run loop
   (newRequest, requestTask, releaseRequestTask, unpause, cancelRequest, update) restricted to what they
   do to the request table and to what they send.

   Every handler of the Go code looks one request id up in rm.inProgressRequestStatuses, works on that
   entry and stores/deletes it.  The model is written in exactly that shape: a per-response function
   over the looked-up entry ([option entry] in, [option entry] out: None = deleted), and [for_each]
   doing the look-up and the store for every response of the list, in order.

   A Go nil dereference (an entry that the code assumes present is absent, or a running request
   without loader) is recorded in the sticky flag [rm_nilderef]: the process has panicked; what the
   model says after that point is meaningless.  The proofs show the flag is never raised for
   well-formed messages (distinct request ids: message.GraphSyncMessage keeps responses in a map keyed
   by request id) on consistent tables.  No proofs in this file. *)
From Coq Require Import List NArith Bool.
From GS Require Import Base.
Import ListNotations.
Open Scope N_scope.

Definition peer := N.
Definition rid := N.
Definition lnk := N.
Definition errc := N.     (* an error, identified by a small code (status code for status errors) *)

(* ---------- status codes (graphsync responsecode.go) ---------- *)
Definition st_is_success (c : N) : bool := (c =? 20) || (c =? 21).
Definition st_is_failure (c : N) : bool :=
  (c =? 31) || (c =? 34) || (c =? 33) || (c =? 32) || (c =? 35) || (c =? 30).
Definition st_is_terminal (c : N) : bool := st_is_success c || st_is_failure c.
Definition err_client_cancel : errc := 998.   (* graphsync.RequestClientCancelledErr *)
Definition err_paused : errc := 999.          (* hooks.ErrPaused (PauseRequest in a response hook) *)

(* link actions in metadata *)
Definition act_present : N := 0.   (* Present; 1 = DuplicateNotSent, 2 = Missing, 3 = DuplicateDAGSkipped *)

(* ---------- messages ---------- *)
Record resp := mk_resp { r_id : rid; r_status : N; r_md : list (lnk * N); r_exts : list N }.
Record msg := mk_msg { m_from : peer; m_resps : list resp; m_blocks : list (lnk * N) (* cid, data length *) }.

(* ---------- what the table holds for a request (client.go inProgressRequestStatus) ---------- *)
Record qitem := mk_qitem { q_link : lnk; q_action : N; q_block : option N }.
Record loader := mk_loader { l_open : bool; l_queue : list qitem }.      (* reconciledloader: open, remoteQueue *)
Inductive rstate := Queued | Running | Paused.
Record entry := mk_entry {
  e_peer : peer;              (* p: the peer the request was sent to *)
  e_state : rstate;
  e_term : option errc;       (* terminalError *)
  e_ctx_done : bool;          (* cancelFn called *)
  e_last : resp;              (* lastResponse *)
  e_loader : option loader    (* reconciledLoader (nil until the request first runs) *)
}.
Definition tab := list (rid * entry).
Record rmstate := mk_rm { rm_tab : tab; rm_nilderef : bool }.

(* ---------- outputs ---------- *)
Inductive skind := KNew | KUpdate (exts : list N) | KCancel.
Inductive event :=
| EvHook (p : peer) (x : resp)                          (* responseHooks.ProcessResponseHooks(p, x) *)
| EvSend (to : peer) (id : rid) (k : skind)             (* SendRequest(to, request of kind k for id) *)
| EvCtxCancel (id : rid)                                (* ipr.cancelFn() on a running request *)
| EvTerminate (id : rid) (p : peer) (err : option errc) (* terminateRequest: terminal error delivered on the
                                                           error channel, Unprotect(p), entry deleted, channels closed *)
| EvPush (p : peer) (id : rid)                          (* requestQueue.PushTask *)
| EvTaskDone (id : rid).                                (* requestQueue.TaskDone *)

Definition ev_id (e : event) : rid :=
  match e with
  | EvHook _ x => r_id x
  | EvSend _ id _ => id
  | EvCtxCancel id => id
  | EvTerminate id _ _ => id
  | EvPush _ id => id
  | EvTaskDone id => id
  end.

(* result of the response hooks for one response (hooks/responsehooks.go UpdateResult) *)
Record hres := mk_hres { h_exts : list N; h_err : option errc }.

(* ---------- table access ---------- *)
Definition tset (k : rid) (oe : option entry) (t : tab) : tab :=
  match oe with Some e => aput k e t | None => adel k t end.

(* result of a per-response function: new entry (None = deleted / absent), events, whether the response
   stays in the list, whether a nil pointer was dereferenced *)
Record lres := mk_lres { lr_entry : option entry; lr_events : list event; lr_keep : bool; lr_nil : bool }.

(* `for _, response := range responses { ... rm.inProgressRequestStatuses[response.RequestID()] ... }` *)
Fixpoint for_each (f : resp -> option entry -> lres) (s : rmstate) (rs : list resp)
  : rmstate * list event * list resp :=
  match rs with
  | [] => (s, [], [])
  | x :: rest =>
    let r := f x (aget (r_id x) (rm_tab s)) in
    let s1 := mk_rm (tset (r_id x) (lr_entry r) (rm_tab s)) (rm_nilderef s || lr_nil r) in
    let '(s2, ev2, kept) := for_each f s1 rest in
    (s2, lr_events r ++ ev2, if lr_keep r then x :: kept else kept)
  end.

(* ---------- server.go terminateRequest / cancelOnError on one entry ---------- *)
Definition set_term (e : entry) (err : errc) : entry :=
  match e_term e with
  | None => mk_entry (e_peer e) (e_state e) (Some err) (e_ctx_done e) (e_last e) (e_loader e)
  | Some _ => e
  end.
Definition set_offline (e : entry) : entry :=      (* reconciledLoader.SetRemoteOnline(false) *)
  mk_entry (e_peer e) (e_state e) (e_term e) (e_ctx_done e) (e_last e)
           (option_map (fun l => mk_loader false (l_queue l)) (e_loader e)).
(* reconciledLoader.SetRemoteOnline(true): a loader that was closed drops what is still queued
   (remoteQueue.clear(); the model carries no last-consumed item, nothing is consumed in it) before it
   opens; an open loader is left as it is *)
Definition loader_online (l : loader) : loader :=
  if l_open l then l else mk_loader true [].
Definition set_ctx_done (e : entry) : entry :=
  mk_entry (e_peer e) (e_state e) (e_term e) true (e_last e) (e_loader e).
Definition has_loader (e : entry) : bool := match e_loader e with Some _ => true | None => false end.

(* terminateRequest(id, ipr): the entry is deleted *)
Definition terminate_l (id : rid) (e : entry) : lres :=
  mk_lres None [EvTerminate id (e_peer e) (e_term e)] false false.

(* cancelOnError(id, ipr, err) *)
Definition cancel_on_error_l (id : rid) (e : entry) (err : errc) : lres :=
  let e1 := set_term e err in
  match e_state e1 with
  | Running =>   (* ipr.cancelFn(); ipr.reconciledLoader.SetRemoteOnline(false) — nil loader: panic *)
    mk_lres (Some (set_offline (set_ctx_done e1))) [EvCtxCancel id] false (negb (has_loader e1))
  | _ => terminate_l id e1
  end.

Section WithHooks.
  Variable hook : peer -> resp -> hres.

  (* filterResponsesForPeer *)
  Definition resp_for_peer (t : tab) (p : peer) (x : resp) : bool :=
    match aget (r_id x) t with Some e => e_peer e =? p | None => false end.
  Definition filter_for_peer (s : rmstate) (p : peer) (rs : list resp) : list resp :=
    filter (resp_for_peer (rm_tab s) p) rs.

  (* processExtensionsForResponse(p, response) *)
  Definition ext_l (p : peer) (x : resp) (oe : option entry) : lres :=
    let h := hook p x in
    let ev1 := EvHook p x ::
               match h_exts h with [] => [] | _ => [EvSend p (r_id x) (KUpdate (h_exts h))] end in
    match h_err h with
    | None => mk_lres oe ev1 true false
    | Some err =>
      match oe with
      | None => mk_lres None ev1 false false
      | Some e =>
        let c := cancel_on_error_l (r_id x) e err in
        mk_lres (lr_entry c) (ev1 ++ EvSend (e_peer e) (r_id x) KCancel :: lr_events c) false (lr_nil c)
      end
    end.

  (* updateLastResponses: rm.inProgressRequestStatuses[id].lastResponse.Store(response) *)
  Definition last_l (x : resp) (oe : option entry) : lres :=
    match oe with
    | None => mk_lres None [] true true
    | Some e => mk_lres (Some (mk_entry (e_peer e) (e_state e) (e_term e) (e_ctx_done e) x (e_loader e))) [] true false
    end.

  (* injest.go IngestResponse *)
  Fixpoint ingest_items (md : list (lnk * N)) (seen : list lnk) (bm : list (N * N)) : list qitem :=
    match md with
    | [] => []
    | (l, a) :: rest =>
      if a =? act_present then
        if existsb (N.eqb l) seen then mk_qitem l a None :: ingest_items rest seen bm
        else mk_qitem l a (aget l bm) :: ingest_items rest (l :: seen) bm
      else mk_qitem l a None :: ingest_items rest seen bm
    end.
  Definition ingest (ld : loader) (md : list (lnk * N)) (bm : list (N * N)) : loader :=
    match md with
    | [] => ld
    | _ => if l_open ld then mk_loader true (l_queue ld ++ ingest_items md [] bm) else ld
    end.
  (* the loop in processResponses: loader := table[id].reconciledLoader; if loader != nil { IngestResponse } *)
  Definition ingest_l (bm : list (N * N)) (x : resp) (oe : option entry) : lres :=
    match oe with
    | None => mk_lres None [] true true
    | Some e =>
      mk_lres (Some (mk_entry (e_peer e) (e_state e) (e_term e) (e_ctx_done e) (e_last e)
                              (option_map (fun l => ingest l (r_md x) bm) (e_loader e)))) [] true false
    end.

  (* processTerminations, one response *)
  Definition term_l (x : resp) (oe : option entry) : lres :=
    if st_is_terminal (r_status x) then
      let c := if st_is_failure (r_status x) then
                 match oe with
                 | None => mk_lres None [] true true      (* cancelOnError(id, nil, ..): panic *)
                 | Some e => cancel_on_error_l (r_id x) e (r_status x)
                 end
               else mk_lres oe [] true false in
      (* ipr, ok := table[id]; if ok && ipr.reconciledLoader != nil { SetRemoteOnline(false) } *)
      mk_lres (option_map set_offline (lr_entry c)) (lr_events c) true (lr_nil c)
    else mk_lres oe [] true false.

  (* blkMap[blk.Cid()] = blk.RawData(): a later block with the same cid replaces an earlier one *)
  Definition blk_map (blks : list (lnk * N)) : list (N * N) :=
    fold_left (fun m b => aput (fst b) (snd b) m) blks [].

  (* processResponses(p, responses, blks) *)
  Definition process_responses (s : rmstate) (m : msg) : rmstate * list event :=
    let p := m_from m in
    let rs0 := filter_for_peer s p (m_resps m) in
    let '(s1, ev1, rs1) := for_each (ext_l p) s rs0 in          (* processExtensions *)
    let rs2 := filter_for_peer s1 p rs1 in
    let bm := blk_map (m_blocks m) in
    let '(s2, _, _) := for_each last_l s1 rs2 in                (* updateLastResponses *)
    let '(s3, _, _) := for_each (ingest_l bm) s2 rs2 in         (* ingest loop *)
    let '(s4, ev4, _) := for_each term_l s3 rs2 in              (* processTerminations *)
    (s4, ev1 ++ ev4).

  (* ---------- the other handlers of the run loop, one request id each ---------- *)
  Inductive label :=
  | LMsg (m : msg)                       (* processResponsesMessage *)
  | LNew (id : rid) (p : peer)           (* newRequestMessage (id fresh) *)
  | LGetTask (id : rid)                  (* getRequestTaskMessage: the executor picks the request up *)
  | LOnline (id : rid)                   (* executor holding the task: SetRemoteOnline(true); SendRequest(p, request) *)
  | LRelease (id : rid) (paused : bool)  (* executor holding the task: [cancel + offline when paused]; releaseRequestTaskMessage *)
  | LUnpause (id : rid)                  (* unpauseRequestMessage *)
  | LCancel (id : rid)                   (* cancelRequestMessage (CancelRequest API) *)
  | LUpdate (id : rid) (exts : list N).  (* updateRequestMessage *)

  Definition fresh_entry (id : rid) (p : peer) : entry :=
    mk_entry p Queued None false (mk_resp id 10 [] []) None.    (* lastResponse = RequestAcknowledged *)

  (* one-id handlers as functions of the looked-up entry *)
  Definition other_l (lb : label) (oe : option entry) : lres :=
    match lb with
    | LMsg _ => mk_lres oe [] true false
    | LNew id p => mk_lres (Some (fresh_entry id p)) [EvPush p id] true false
    | LGetTask id =>          (* getRequestTask / requestTask *)
      match oe with
      | None => mk_lres None [EvTaskDone id] true false
      | Some e =>
        mk_lres (Some (mk_entry (e_peer e) Running (e_term e) (e_ctx_done e) (e_last e)
                                (match e_loader e with Some l => Some l | None => Some (mk_loader false []) end)))
                [] true false
      end
    | LOnline id =>
      match oe with
      | Some e =>
        match e_state e with
        | Running =>
          mk_lres (Some (mk_entry (e_peer e) (e_state e) (e_term e) (e_ctx_done e) (e_last e)
                                  (option_map loader_online (e_loader e))))
                  [EvSend (e_peer e) id KNew] true false
        | _ => mk_lres oe [] true false
        end
      | None => mk_lres oe [] true false
      end
    | LRelease id paused =>
      match oe with
      | Some e =>
        match e_state e with
        | Running =>
          if paused then      (* executor: SendRequest(P, cancel); SetRemoteOnline(false); release with ErrPaused *)
            let e1 := set_offline e in
            if e_ctx_done e then    (* releaseRequestTask: a request cancelled while running is not parked as paused *)
              mk_lres None (EvSend (e_peer e) id KCancel :: EvTaskDone id :: lr_events (terminate_l id e1)) true false
            else
              mk_lres (Some (mk_entry (e_peer e1) Paused (e_term e1) (e_ctx_done e1) (e_last e1) (e_loader e1)))
                      [EvSend (e_peer e) id KCancel; EvTaskDone id] true false
          else                (* releaseRequestTask: TaskDone; terminateRequest *)
            mk_lres None (EvTaskDone id :: lr_events (terminate_l id e)) true false
        | _ => mk_lres oe [] true false
        end
      | None => mk_lres oe [] true false
      end
    | LUnpause id =>
      match oe with
      | Some e =>
        match e_state e with
        | Paused => mk_lres (Some (mk_entry (e_peer e) Queued (e_term e) (e_ctx_done e) (e_last e) (e_loader e)))
                            [EvPush (e_peer e) id] true false
        | _ => mk_lres oe [] true false
        end
      | None => mk_lres oe [] true false
      end
    | LCancel id =>           (* cancelRequest: SendRequest(p, cancel); cancelOnError *)
      match oe with
      | Some e =>
        let c := cancel_on_error_l id e err_client_cancel in
        mk_lres (lr_entry c) (EvSend (e_peer e) id KCancel :: lr_events c) true (lr_nil c)
      | None => mk_lres oe [] true false
      end
    | LUpdate id exts =>
      match oe with
      | Some e => mk_lres oe [EvSend (e_peer e) id (KUpdate exts)] true false
      | None => mk_lres oe [] true false
      end
    end.

  Definition label_id (lb : label) : rid :=
    match lb with
    | LMsg _ => 0
    | LNew id _ | LGetTask id | LOnline id | LRelease id _ | LUnpause id | LCancel id | LUpdate id _ => id
    end.

  Definition step (s : rmstate) (lb : label) : rmstate * list event :=
    match lb with
    | LMsg m => process_responses s m
    | _ =>
      let id := label_id lb in
      let r := other_l lb (aget id (rm_tab s)) in
      (mk_rm (tset id (lr_entry r) (rm_tab s)) (rm_nilderef s || lr_nil r), lr_events r)
    end.

  Fixpoint run (s : rmstate) (lbs : list label) : rmstate * list event :=
    match lbs with
    | [] => (s, [])
    | lb :: rest =>
      let '(s1, ev1) := step s lb in
      let '(s2, ev2) := run s1 rest in
      (s2, ev1 ++ ev2)
    end.

  (* a message is foreign to request r when r is in the table and was sent to another peer *)
  Definition foreign_to (r : rid) (s : rmstate) (lb : label) : bool :=
    match lb with
    | LMsg m => match aget r (rm_tab s) with Some e => negb (e_peer e =? m_from m) | None => false end
    | _ => false
    end.

  (* the same history with every message that is foreign to r (when it arrives) removed *)
  Fixpoint run_without_foreign (r : rid) (s : rmstate) (lbs : list label) : rmstate * list event :=
    match lbs with
    | [] => (s, [])
    | lb :: rest =>
      if foreign_to r s lb then run_without_foreign r s rest
      else
        let '(s1, ev1) := step s lb in
        let '(s2, ev2) := run_without_foreign r s1 rest in
        (s2, ev1 ++ ev2)
    end.
End WithHooks.

(* processResponses as it was BEFORE the repair (hooks first, then the peer filter); only used to
   exhibit the refutation in props/C09.v *)
Definition process_responses_before_fix (hook : peer -> resp -> hres) (s : rmstate) (m : msg) : rmstate * list event :=
  let p := m_from m in
  let '(s1, ev1, rs1) := for_each (ext_l hook p) s (m_resps m) in
  let rs2 := filter_for_peer s1 p rs1 in
  let bm := blk_map (m_blocks m) in
  let '(s2, _, _) := for_each last_l s1 rs2 in
  let '(s3, _, _) := for_each (ingest_l bm) s2 rs2 in
  let '(s4, ev4, _) := for_each term_l s3 rs2 in
  (s4, ev1 ++ ev4).

Definition events_of (r : rid) (evs : list event) : list event := filter (fun e => ev_id e =? r) evs.
Definition empty_rm : rmstate := mk_rm [] false.

(* what the executor would hand to the block hooks for the next queued item of a request
   (executor.go onNewBlock: ProcessBlockHooks(rt.P, lastResponse, block)) *)
Definition block_hook_args (e : entry) : option (peer * resp * qitem) :=
  match e_loader e with
  | Some l => match l_queue l with q :: _ => Some (e_peer e, e_last e, q) | [] => None end
  | None => None
  end.

(* consistency of a table entry: a running request has a loader (requestTask creates it before
   setting the state) *)
Definition entry_okb (e : entry) : bool :=
  match e_state e with Running => has_loader e | _ => true end.
Definition tab_okb (t : tab) : bool := forallb (fun kv => entry_okb (snd kv)) t.
Definition msg_wfb (m : msg) : bool := nodupb (map r_id (m_resps m)).

(* ================= executable equality, cases, monitor ================= *)
Definition pair_eqb (a b : N * N) : bool := (fst a =? fst b) && (snd a =? snd b).
Definition resp_eqb (a b : resp) : bool :=
  (r_id a =? r_id b) && (r_status a =? r_status b) && list_eqb pair_eqb (r_md a) (r_md b) &&
  list_eqb N.eqb (r_exts a) (r_exts b).
Definition qitem_eqb (a b : qitem) : bool :=
  (q_link a =? q_link b) && (q_action a =? q_action b) && option_eqb N.eqb (q_block a) (q_block b).
Definition loader_eqb (a b : loader) : bool :=
  Bool.eqb (l_open a) (l_open b) && list_eqb qitem_eqb (l_queue a) (l_queue b).
Definition rstate_eqb (a b : rstate) : bool :=
  match a, b with Queued, Queued | Running, Running | Paused, Paused => true | _, _ => false end.
Definition entry_eqb (a b : entry) : bool :=
  (e_peer a =? e_peer b) && rstate_eqb (e_state a) (e_state b) && option_eqb N.eqb (e_term a) (e_term b) &&
  Bool.eqb (e_ctx_done a) (e_ctx_done b) && resp_eqb (e_last a) (e_last b) &&
  option_eqb loader_eqb (e_loader a) (e_loader b).
Definition skind_eqb (a b : skind) : bool :=
  match a, b with
  | KNew, KNew | KCancel, KCancel => true
  | KUpdate x, KUpdate y => list_eqb N.eqb x y
  | _, _ => false
  end.
Definition event_eqb (a b : event) : bool :=
  match a, b with
  | EvHook p x, EvHook q y => (p =? q) && resp_eqb x y
  | EvSend p i k, EvSend q j l => (p =? q) && (i =? j) && skind_eqb k l
  | EvCtxCancel i, EvCtxCancel j => i =? j
  | EvTerminate i p e, EvTerminate j q f => (i =? j) && (p =? q) && option_eqb N.eqb e f
  | EvPush p i, EvPush q j => (p =? q) && (i =? j)
  | EvTaskDone i, EvTaskDone j => i =? j
  | _, _ => false
  end.

(* the hook oracle of a case: a finite table keyed by (peer, request id, status) *)
Record hrow := mk_hrow { hk_peer : peer; hk_id : rid; hk_status : N; hv_exts : list N; hv_err : option errc }.
Fixpoint hook_of (rows : list hrow) (p : peer) (x : resp) : hres :=
  match rows with
  | [] => mk_hres [] None
  | h :: rest =>
    if (hk_peer h =? p) && (hk_id h =? r_id x) && (hk_status h =? r_status x)
    then mk_hres (hv_exts h) (hv_err h) else hook_of rest p x
  end.

(* what the driver saw after one label: the events in order and the table entries that changed
   (None = the id left the table) with respect to the table seen after the previous label *)
Record sobs := mk_sobs { so_events : list event; so_upd : list (rid * option entry) }.
Record rcase := mk_rcase {
  c_hooks : list hrow;
  c_labels : list label;
  c_obs : list sobs;          (* implementation, one per label *)
  c_obs_clean : list sobs     (* implementation run on the same history with the responses that do not come
                                 from the peer their request was sent to removed from every message *)
}.

Definition apply_upd (t : tab) (u : list (rid * option entry)) : tab :=
  fold_left (fun t kv => tset (fst kv) (snd kv) t) u t.

Definition tab_eqb (model seen : tab) : bool :=
  (N.of_nat (length model) =? N.of_nat (length seen)) &&
  forallb (fun kv => match aget (fst kv) model with Some e => entry_eqb e (snd kv) | None => false end) seen.

(* cancelFn() itself is not seen by the driver (its effect, e_ctx_done, is in the table) *)
Definition seen_event (e : event) : bool := match e with EvCtxCancel _ => false | _ => true end.

(* model vs implementation, label by label *)
Fixpoint agrees_from (hook : peer -> resp -> hres) (s : rmstate) (seen : tab) (lbs : list label) (obs : list sobs) : bool :=
  match lbs, obs with
  | [], [] => true
  | lb :: lbs', o :: obs' =>
    let '(s1, ev) := step hook s lb in
    let seen1 := apply_upd seen (so_upd o) in
    list_eqb event_eqb (filter seen_event ev) (so_events o) && tab_eqb (rm_tab s1) seen1 && negb (rm_nilderef s1) &&
    agrees_from hook s1 seen1 lbs' obs'
  | _, _ => false
  end.
Definition rcase_agrees (c : rcase) : bool :=
  agrees_from (hook_of (c_hooks c)) empty_rm [] (c_labels c) (c_obs c).

(* ---------- the property monitor, on observations alone ----------
   (1) frame: at every message label, every request that was in the table before with another owner
       has the same entry afterwards and no event of that step carries its id;
   (2) every response-hook call is made for a response whose request belongs to the calling peer;
   (3) the run with the foreign responses removed shows the same events and tables, step by step. *)
Definition frame_step (before after : tab) (lb : label) (o : sobs) : bool :=
  match lb with
  | LMsg m =>
    forallb (fun kv =>
      if e_peer (snd kv) =? m_from m then true
      else match aget (fst kv) after with Some e => entry_eqb e (snd kv) | None => false end &&
           negb (existsb (fun ev => ev_id ev =? fst kv) (so_events o))) before &&
    forallb (fun ev => match ev with
                       | EvHook p x => match aget (r_id x) before with Some e => e_peer e =? p | None => false end
                       | _ => true end) (so_events o)
  | _ => true
  end.
Fixpoint frame_from (before : tab) (lbs : list label) (obs : list sobs) : bool :=
  match lbs, obs with
  | lb :: lbs', o :: obs' =>
    let after := apply_upd before (so_upd o) in
    frame_step before after lb o && frame_from after lbs' obs'
  | _, _ => true
  end.
Definition upd_eqb (x y : rid * option entry) : bool := (fst x =? fst y) && option_eqb entry_eqb (snd x) (snd y).
Definition sobs_eqb (a b : sobs) : bool :=
  list_eqb event_eqb (so_events a) (so_events b) && list_eqb upd_eqb (so_upd a) (so_upd b).
Definition rcase_mon (c : rcase) : bool :=
  frame_from [] (c_labels c) (c_obs c) && list_eqb sobs_eqb (c_obs c) (c_obs_clean c).

(* ---------- monomorphic constructors for the generated cases files ----------
   (elaborating polymorphic nil / cons / None / Some / pairs costs several ms per occurrence) *)
Definition nN : list N := [].
Definition cN (x : N) (r : list N) : list N := x :: r.
Definition nP : list (N * N) := [].
Definition cP (a b : N) (r : list (N * N)) : list (N * N) := (a, b) :: r.
Definition noN : option N := None.
Definition sN (x : N) : option N := Some x.
Definition nR : list resp := [].
Definition cR (x : resp) (r : list resp) : list resp := x :: r.
Definition nQ : list qitem := [].
Definition cQ (l a : N) (b : option N) (r : list qitem) : list qitem := mk_qitem l a b :: r.
Definition noLd : option loader := None.
Definition sLd (o : bool) (q : list qitem) : option loader := Some (mk_loader o q).
Definition nEv : list event := [].
Definition cEv (x : event) (r : list event) : list event := x :: r.
Definition nU : list (rid * option entry) := [].
Definition cDel (id : rid) (r : list (rid * option entry)) : list (rid * option entry) := (id, None) :: r.
Definition cSet (id : rid) (e : entry) (r : list (rid * option entry)) : list (rid * option entry) := (id, Some e) :: r.
Definition nO : list sobs := [].
Definition cO (ev : list event) (u : list (rid * option entry)) (r : list sobs) : list sobs := mk_sobs ev u :: r.
Definition nL : list label := [].
Definition cL (x : label) (r : list label) : list label := x :: r.
Definition nH : list hrow := [].
Definition cH (x : hrow) (r : list hrow) : list hrow := x :: r.
Definition nC : list rcase := [].
Definition cC (x : rcase) (r : list rcase) : list rcase := x :: r.

(* small numbers as constants: a numeral literal costs milliseconds to elaborate, an identifier does not *)
Definition n0 : N := 0.
Definition n1 : N := 1.
Definition n2 : N := 2.
Definition n3 : N := 3.
Definition n4 : N := 4.
Definition n5 : N := 5.
Definition n6 : N := 6.
Definition n7 : N := 7.
Definition n8 : N := 8.
Definition n9 : N := 9.
Definition n10 : N := 10.
Definition n11 : N := 11.
Definition n12 : N := 12.
Definition n13 : N := 13.
Definition n14 : N := 14.
Definition n15 : N := 15.
Definition n16 : N := 16.
Definition n17 : N := 17.
Definition n18 : N := 18.
Definition n19 : N := 19.
Definition n20 : N := 20.
Definition n21 : N := 21.
Definition n22 : N := 22.
Definition n23 : N := 23.
Definition n24 : N := 24.
Definition n25 : N := 25.
Definition n26 : N := 26.
Definition n27 : N := 27.
Definition n28 : N := 28.
Definition n29 : N := 29.
Definition n30 : N := 30.
Definition n31 : N := 31.
Definition n32 : N := 32.
Definition n33 : N := 33.
Definition n34 : N := 34.
Definition n35 : N := 35.
Definition n36 : N := 36.
Definition n37 : N := 37.
Definition n38 : N := 38.
Definition n39 : N := 39.
Definition n40 : N := 40.
Definition n99 : N := 99.
Definition n100 : N := 100.
Definition n101 : N := 101.
Definition n102 : N := 102.
Definition n998 : N := 998.
Definition n999 : N := 999.
