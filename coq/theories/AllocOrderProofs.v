(* AllocOrderProofs.v — the stronger monitor [monitor_C14x] (AllocOrder.v: every grant of a release /
   release-peer call takes the earliest-requested eligible waiting head) accepts every history of the
   allocator model.  Builds on AllocProofs.v and AllocFifoProofs.v (nothing there is changed). *)
From Coq Require Import List NArith Bool Lia ZifyBool ZifyN ZifyNat.
From GS Require Import Base Alloc AllocProofs AllocFifoProofs AllocOrder.
Import ListNotations.
Open Scope N_scope.

(* ---------- [min_ok] in terms of lookups ---------- *)
Lemma in_eligible_get mp w l t p a : NoDup (map fst w) ->
  (In (t, p, a) (eligible_heads mp w l) <->
   exists v, wq_get p w = (t, a) :: v /\ fits (led_get p l) a mp = true).
Proof.
  intro Hnd. rewrite in_eligible. split; intros (v & H1 & H2); exists v; split; auto.
  - now apply wq_in_get.
  - rewrite <- H1. apply wq_get_in. rewrite H1. discriminate.
Qed.

Definition MinOk (f : option peer) (mp : N) (t : ticket) (w : waitq) (l : ledger) : Prop :=
  forall q t' a' v, not_failing f q = true -> wq_get q w = (t', a') :: v ->
                    fits (led_get q l) a' mp = true -> t <= t'.

Lemma min_ok_spec f mp t w l : NoDup (map fst w) ->
  (min_ok f mp (Granted t) w l = true <-> MinOk f mp t w l).
Proof.
  intro Hnd. unfold min_ok, elig_x, MinOk. rewrite forallb_forall. split.
  - intros H q t' a' v Hf Hw Hfit. apply N.leb_le.
    apply (H (t', q, a')). apply filter_In. split; [|exact Hf].
    apply in_eligible_get; eauto.
  - intros H [[t' q] a'] Hin. apply filter_In in Hin as [Hin Hf]. simpl in *.
    apply in_eligible_get in Hin as (v & Hw & Hfit); [|exact Hnd].
    apply N.leb_le. eapply H; eauto.
Qed.

Lemma min_ok_ext f mp o w l w2 l2 : NoDup (map fst w) -> NoDup (map fst w2) ->
  (forall q, not_failing f q = true -> wq_get q w = wq_get q w2) ->
  (forall q, not_failing f q = true -> led_get q l = led_get q l2) ->
  min_ok f mp o w l = min_ok f mp o w2 l2.
Proof.
  intros Hn Hn2 Hw Hl. destruct o as [t|t]; [|reflexivity].
  apply eq_iff_eq_true. rewrite !min_ok_spec by assumption. unfold MinOk.
  split; intros H q t' a' v Hf Hq Hfit.
  - apply (H q t' a' v Hf); [rewrite Hw | rewrite Hl]; auto.
  - apply (H q t' a' v Hf); [rewrite <- Hw | rewrite <- Hl]; auto.
Qed.

(* ---------- one outcome with the order check ---------- *)
Definition app1x (tk : tkt_info) (f : option peer) (mp : N) (o : out) (w : waitq) (l : ledger)
  : option (waitq * ledger) :=
  if min_ok f mp o w l then app1 tk f o w l else None.

Lemma applyx_cons tk mp f o r w l :
  apply_outs14x tk mp (o :: r) w l f =
  match app1x tk f mp o w l with Some (w1, l1) => apply_outs14x tk mp r w1 l1 f | None => None end.
Proof.
  cbn [apply_outs14x]. unfold app1x. destruct (min_ok f mp o w l); [|reflexivity].
  rewrite apply_cons. destruct (app1 tk f o w l) as [[w1 l1]|]; reflexivity.
Qed.

Lemma app1x_some tk f mp o w l r : app1x tk f mp o w l = Some r ->
  min_ok f mp o w l = true /\ app1 tk f o w l = Some r.
Proof. unfold app1x. destruct (min_ok f mp o w l); [auto | discriminate]. Qed.

Lemma app1x_intro tk f mp o w l r : min_ok f mp o w l = true -> app1 tk f o w l = Some r ->
  app1x tk f mp o w l = Some r.
Proof. unfold app1x. now intros -> ->. Qed.

(* the stronger application refines the plain one *)
Lemma applyx_sound tk mp f : forall outs w l r,
  apply_outs14x tk mp outs w l f = Some r -> apply_outs14 tk outs w l f = Some r.
Proof.
  induction outs as [|o outs IH]; intros w l r H; [exact H|].
  rewrite applyx_cons in H. rewrite apply_cons.
  destruct (app1x tk f mp o w l) as [[w1 l1]|] eqn:E; [|discriminate].
  apply app1x_some in E as [_ E]. rewrite E. now apply IH.
Qed.

Lemma applyx_app tk mp f : forall a b w l,
  apply_outs14x tk mp (a ++ b) w l f =
  match apply_outs14x tk mp a w l f with Some (w1, l1) => apply_outs14x tk mp b w1 l1 f | None => None end.
Proof.
  induction a as [|o a IH]; intros b w l; [reflexivity|].
  rewrite <- app_comm_cons, !applyx_cons.
  destruct (app1x tk f mp o w l) as [[w1 l1]|]; [apply IH | reflexivity].
Qed.

Lemma app1_nodup tk f o w l w1 l1 : NoDup (map fst w) -> app1 tk f o w l = Some (w1, l1) ->
  NoDup (map fst w1).
Proof.
  intros Hn H. apply app1_some in H as (p & a & a' & q' & _ & _ & _ & -> & _). now apply wq_nodup_set.
Qed.

Lemma app1x_cong tk f mp o w l w2 l2 w1 l1 : NoDup (map fst w) -> NoDup (map fst w2) ->
  weq w w2 -> leq l l2 -> app1x tk f mp o w l = Some (w1, l1) ->
  exists w1' l1', app1x tk f mp o w2 l2 = Some (w1', l1') /\ weq w1 w1' /\ leq l1 l1'.
Proof.
  intros Hn Hn2 Hw Hl H. apply app1x_some in H as [Hm H].
  destruct (app1_cong _ _ _ _ _ _ _ _ _ Hw Hl H) as (w1' & l1' & E & A & B).
  exists w1', l1'. split; [|auto]. apply app1x_intro; [|exact E].
  rewrite <- Hm. symmetry. apply min_ok_ext; auto.
Qed.

Lemma applyx_cong tk mp f : forall outs w l w2 l2 w' l',
  NoDup (map fst w) -> NoDup (map fst w2) -> weq w w2 -> leq l l2 ->
  apply_outs14x tk mp outs w l f = Some (w', l') ->
  exists w'' l'', apply_outs14x tk mp outs w2 l2 f = Some (w'', l'') /\ weq w' w'' /\ leq l' l''.
Proof.
  induction outs as [|o r IH]; intros w l w2 l2 w' l' Hn Hn2 Hw Hl H.
  - simpl in H. inversion H; subst. exists w2, l2. simpl. auto.
  - rewrite applyx_cons in H. destruct (app1x tk f mp o w l) as [[w1 l1]|] eqn:E1; [|discriminate].
    destruct (app1x_cong _ _ _ _ _ _ _ _ _ _ Hn Hn2 Hw Hl E1) as (w1' & l1' & E1' & Hw1 & Hl1).
    rewrite applyx_cons, E1'.
    apply app1x_some in E1 as [_ E1]. apply app1x_some in E1' as [_ E1'].
    eapply IH; [| | | |exact H]; eauto using app1_nodup.
Qed.

(* a Failed outcome concerns the released peer only, which the order check ignores *)
Lemma fail_indep tk f mp u o w l w1 l1 : NoDup (map fst w) ->
  app1 tk f (Failed u) w l = Some (w1, l1) ->
  min_ok f mp o w1 l1 = min_ok f mp o w l.
Proof.
  intros Hn H. pose proof (app1_nodup _ _ _ _ _ _ _ Hn H) as Hn1.
  apply app1_some in H as (p & a & a' & q' & _ & Ef & _ & -> & ->).
  simpl in Ef. destruct f as [fp|]; [|discriminate]. apply N.eqb_eq in Ef. subst fp.
  apply min_ok_ext; auto.
  intros q Hq. rewrite wq_get_set. simpl in Hq. destruct (N.eqb q p); [discriminate | reflexivity].
Qed.

(* outcomes of different peers, not both grants, commute *)
Lemma app1x_swap tk f mp o1 o2 w l w1 l1 w2 l2 : NoDup (map fst w) ->
  app1x tk f mp o1 w l = Some (w1, l1) -> app1x tk f mp o2 w1 l1 = Some (w2, l2) ->
  opeer tk o1 <> opeer tk o2 -> is_grant o1 && is_grant o2 = false ->
  exists wa la wb lb, app1x tk f mp o2 w l = Some (wa, la) /\ app1x tk f mp o1 wa la = Some (wb, lb) /\
                      weq wb w2 /\ leq lb l2.
Proof.
  intros Hn H1 H2 Hne Hg.
  apply app1x_some in H1 as [M1 A1]. apply app1x_some in H2 as [M2 A2].
  destruct (app1_swap _ _ _ _ _ _ _ _ _ _ A1 A2 Hne) as (wa & la & wb & lb & Ea & Eb & Hw & Hl).
  exists wa, la, wb, lb. split; [|split; [|auto]].
  - apply app1x_intro; [|exact Ea]. destruct o1 as [t1|t1].
    + destruct o2 as [t2|t2]; [discriminate | reflexivity].
    + rewrite <- M2. symmetry. eapply fail_indep; eauto.
  - apply app1x_intro; [|exact Eb]. destruct o2 as [t2|t2].
    + destruct o1 as [t1|t1]; [discriminate | reflexivity].
    + rewrite <- M1. eapply fail_indep; eauto.
Qed.

(* emission order that sorting must respect: outcomes of one peer, and grants among themselves,
   come in increasing ticket order *)
Fixpoint POrdx (tk : tkt_info) (l : list out) : Prop :=
  match l with
  | [] => True
  | o :: r => (forall x, In x r -> opeer tk x = opeer tk o \/ is_grant o && is_grant x = true ->
                         out_tkt o < out_tkt x) /\ POrdx tk r
  end.

Lemma applyx_insert tk mp f o : forall r w l w' l', NoDup (map fst w) ->
  (forall x, In x r -> opeer tk x = opeer tk o \/ is_grant o && is_grant x = true -> out_tkt o < out_tkt x) ->
  apply_outs14x tk mp (o :: r) w l f = Some (w', l') ->
  exists w'' l'', apply_outs14x tk mp (insert_out o r) w l f = Some (w'', l'') /\ weq w' w'' /\ leq l' l''.
Proof.
  induction r as [|x r IH]; intros w l w' l' Hn Hord H.
  - simpl insert_out. exists w', l'. split; [exact H|]. split; intro; reflexivity.
  - simpl insert_out. destruct (N.leb_spec (out_tkt o) (out_tkt x)) as [Hle|Hgt].
    + exists w', l'. split; [exact H|]. split; intro; reflexivity.
    + rewrite applyx_cons in H. destruct (app1x tk f mp o w l) as [[w1 l1]|] eqn:E1; [|discriminate].
      rewrite applyx_cons in H. destruct (app1x tk f mp x w1 l1) as [[w2 l2]|] eqn:E2; [|discriminate].
      assert (Hne : opeer tk o <> opeer tk x).
      { intro E. specialize (Hord x (or_introl eq_refl) (or_introl (eq_sym E))). lia. }
      assert (Hng : is_grant o && is_grant x = false).
      { destruct (is_grant o && is_grant x) eqn:Eg; [|reflexivity].
        specialize (Hord x (or_introl eq_refl) (or_intror Eg)). lia. }
      destruct (app1x_swap _ _ _ _ _ _ _ _ _ _ _ Hn E1 E2 Hne Hng) as (wa & la & wb & lb & Ea & Eb & Hwb & Hlb).
      assert (Hn1 : NoDup (map fst w1)) by (apply app1x_some in E1 as [_ E1]; eauto using app1_nodup).
      assert (Hn2 : NoDup (map fst w2)) by (apply app1x_some in E2 as [_ E2]; eauto using app1_nodup).
      assert (Hna : NoDup (map fst wa)) by (pose proof Ea as Ea'; apply app1x_some in Ea' as [_ Ea']; eauto using app1_nodup).
      assert (Hnb : NoDup (map fst wb)) by (pose proof Eb as Eb'; apply app1x_some in Eb' as [_ Eb']; eauto using app1_nodup).
      assert (Hweq : weq w2 wb) by (intro q; symmetry; apply Hwb).
      assert (Hleq : leq l2 lb) by (intro q; symmetry; apply Hlb).
      destruct (applyx_cong _ _ _ _ _ _ _ _ _ _ Hn2 Hnb Hweq Hleq H) as (w3 & l3 & E3 & Hw3 & Hl3).
      assert (E4 : apply_outs14x tk mp (o :: r) wa la f = Some (w3, l3)) by (rewrite applyx_cons, Eb; exact E3).
      destruct (IH wa la w3 l3 Hna) as (w4 & l4 & E5 & Hw4 & Hl4).
      { intros y Hy. apply Hord. now right. }
      { exact E4. }
      exists w4, l4. split; [rewrite applyx_cons, Ea; exact E5|].
      split; intro q; [rewrite Hw3; apply Hw4 | rewrite Hl3; apply Hl4].
Qed.

Lemma applyx_sorted tk mp f : forall outs w l w' l', NoDup (map fst w) -> POrdx tk outs ->
  apply_outs14x tk mp outs w l f = Some (w', l') ->
  exists w'' l'', apply_outs14x tk mp (sort_outs outs) w l f = Some (w'', l'') /\ weq w' w'' /\ leq l' l''.
Proof.
  induction outs as [|o r IH]; intros w l w' l' Hn Hord H.
  - exists w', l'. split; [exact H|]. split; intro; reflexivity.
  - destruct Hord as [Ho Hr]. rewrite applyx_cons in H.
    destruct (app1x tk f mp o w l) as [[w1 l1]|] eqn:E1; [|discriminate].
    assert (Hn1 : NoDup (map fst w1)) by (pose proof E1 as E1'; apply app1x_some in E1' as [_ E1']; eauto using app1_nodup).
    destruct (IH _ _ _ _ Hn1 Hr H) as (w2 & l2 & E2 & Hw2 & Hl2).
    assert (E3 : apply_outs14x tk mp (o :: sort_outs r) w l f = Some (w2, l2))
      by (rewrite applyx_cons, E1; exact E2).
    change (sort_outs (o :: r)) with (insert_out o (sort_outs r)).
    destruct (applyx_insert tk mp f o (sort_outs r) w l w2 l2 Hn) as (w3 & l3 & E4 & Hw3 & Hl3).
    { intros x Hx. apply Ho. now apply in_sort_outs. }
    { exact E3. }
    exists w3, l3. split; [exact E4|].
    split; intro q; [rewrite Hw2; apply Hw3 | rewrite Hl2; apply Hl3].
Qed.

(* ---------- the model grants the earliest-requested eligible head ---------- *)
Definition QO (s : st) : Prop :=
  (forall p, tinc (waiting_of s p)) /\
  (forall p x q y, In x (waiting_of s p) -> In y (waiting_of s q) -> p_idx x <= p_idx y -> p_tkt x <= p_tkt y).

Lemma qo_of_qinv s : QInv s -> QO s.
Proof. intros [A _ C]. split; assumption. Qed.

Lemma qo_sub s s' : QO s -> Sub s s' -> QO s'.
Proof.
  intros [A C] HS. split.
  - intro p. destruct (HS p) as [pre E]. specialize (A p). rewrite E in A. now apply tinc_app_inv in A.
  - intros p x q y Hx Hy. apply (C p x q y); eapply sub_in; eauto.
Qed.

Definition eligible_at (s : st) (q : peer) : Prop :=
  exists hq rq, waiting_of s q = hq :: rq /\ fits (alloc_of s q) (p_amt hq) (max_peer s) = true.

Lemma head_min s p ps h rest : NoDup (keys (peers s)) -> QO s ->
  min_peer (max_peer s) (peers s) = Some (p, ps) -> ps_pend ps = h :: rest ->
  fits (ps_alloc ps) (p_amt h) (max_peer s) = true ->
  forall q hq rq, waiting_of s q = hq :: rq -> fits (alloc_of s q) (p_amt hq) (max_peer s) = true ->
  p_tkt h <= p_tkt hq.
Proof.
  intros Hnd [_ Hord] Emin Epend Fp q hq rq Ewq Fq.
  pose proof (in_lookup _ _ _ Hnd (min_peer_in _ _ _ Emin)) as Hlk.
  destruct (waiting_cons _ _ _ _ Ewq) as (qs & Hq & Hqp).
  pose proof (min_peer_min _ _ _ Emin (q, qs) (lookup_in _ _ _ Hq)) as Hle.
  rewrite ps_less_rank in Hle. simpl in Hle. unfold rank in Hle.
  unfold alloc_of in Fq. rewrite Hq in Fq. rewrite Hqp, Fq, Epend, Fp in Hle.
  unfold lexlt in Hle. simpl in Hle.
  assert (Hidx : p_idx h <= p_idx hq) by (destruct (N.ltb_spec (p_idx hq) (p_idx h)); [discriminate | assumption]).
  apply (Hord p h q hq); [|rewrite Ewq; now left | exact Hidx].
  rewrite (waiting_lookup _ _ _ Hlk), Epend. now left.
Qed.

Lemma tkt_neq tk s p q x y : TkInv tk s -> In x (waiting_of s p) -> In y (waiting_of s q) ->
  p <> q -> p_tkt x <> p_tkt y.
Proof.
  intros HT Hx Hy Hn E. pose proof (tkinv_w _ _ _ _ HT Hx) as A. pose proof (tkinv_w _ _ _ _ HT Hy) as B.
  rewrite E in A. congruence.
Qed.

(* where a grant came from, with eligibility of its peer's head at the start of the run *)
Definition from_eligible (s : st) (o : out) : Prop :=
  exists q x, In x (waiting_of s q) /\ o = Granted (p_tkt x) /\ eligible_at s q.

Lemma pp_simx tk f : forall fuel s acc s' outs ok w l,
  process_pending fuel s acc = (s', outs, ok) ->
  NoDup (keys (peers s)) -> TkInv tk s -> QO s -> R w l s -> NoDup (map fst w) ->
  exists new w' l', outs = acc ++ new /\
    apply_outs14x tk (max_peer s) new w l f = Some (w', l') /\
    POrdx tk new /\ (forall o, In o new -> from_eligible s o).
Proof.
  induction fuel as [|fu IH]; intros s acc s' outs ok w l H Hnd HT HQ HR Hnw.
  - simpl in H. inversion H; subst. exists [], w, l. rewrite app_nil_r.
    repeat split; auto. intros o [].
  - assert (Hstop : forall s0 outs0 ok0, (s, acc, true) = (s0, outs0, ok0) ->
      exists new w' l', outs0 = acc ++ new /\
        apply_outs14x tk (max_peer s) new w l f = Some (w', l') /\
        POrdx tk new /\ (forall o, In o new -> from_eligible s o)).
    { intros s0 outs0 ok0 E. inversion E; subst. exists [], w, l. rewrite app_nil_r.
      repeat split; auto. intros o []. }
    simpl in H. destruct (min_peer (max_peer s) (peers s)) as [[p ps]|] eqn:Emin; [|exact (Hstop _ _ _ H)].
    pose proof (min_peer_in _ _ _ Emin) as Hin.
    pose proof (in_lookup _ _ _ Hnd Hin) as Hlk.
    destruct (ps_pend ps) as [|h rest] eqn:Epend.
    + destruct (N.ltb_spec 0 (ps_alloc ps)) as [Hpos|Hz]; [exact (Hstop _ _ _ H)|].
      assert (Ha : ps_alloc ps = 0) by lia.
      set (s1 := with_peers s (total s) (remove p (peers s))) in *.
      assert (Hw1 : forall q, waiting_of s1 q = waiting_of s q).
      { intro q. unfold s1. rewrite waiting_with_remove by exact Hnd.
        destruct (N.eqb_spec q p) as [->|]; [|reflexivity].
        now rewrite (waiting_lookup _ _ _ Hlk). }
      assert (Ha1 : forall q, alloc_of s1 q = alloc_of s q).
      { intro q. unfold s1. rewrite alloc_with_remove by exact Hnd.
        destruct (N.eqb_spec q p) as [->|]; [|reflexivity].
        unfold alloc_of. now rewrite Hlk. }
      destruct (IH s1 acc s' outs ok w l H) as (new & w' & l' & E & Eap & Hpo & Hfe); auto.
      { apply nodup_remove, Hnd. }
      { apply tkinv_of_waiting. intros q x Hx. rewrite Hw1 in Hx. eapply tkinv_w; eauto. }
      { apply (qo_sub s); [exact HQ|]. intro q. exists []. now rewrite Hw1. }
      { destruct HR as [A B]. split; intro q; [rewrite Hw1; apply A | rewrite Ha1; apply B]. }
      exists new, w', l'. split; [exact E|]. split; [exact Eap|]. split; [exact Hpo|].
      intros o Ho. destruct (Hfe o Ho) as (q & x & Hx & Eo & hq & rq & Eq & Fq).
      exists q, x. rewrite <- Hw1. split; [exact Hx|]. split; [exact Eo|].
      exists hq, rq. rewrite <- Hw1, <- Ha1. auto.
    + destruct (fits (total s) (p_amt h) (max_total s)) eqn:Ft; simpl in H; [|exact (Hstop _ _ _ H)].
      destruct (fits (ps_alloc ps) (p_amt h) (max_peer s)) eqn:Fp; simpl in H; [|exact (Hstop _ _ _ H)].
      set (v := {| ps_alloc := ps_alloc ps + p_amt h; ps_pend := rest |}) in *.
      set (s1 := with_peers s (total s + p_amt h) (set p v (peers s))) in *.
      assert (Hwp : waiting_of s p = h :: rest) by (rewrite (waiting_lookup _ _ _ Hlk); exact Epend).
      assert (Hap : alloc_of s p = ps_alloc ps) by (unfold alloc_of; now rewrite Hlk).
      assert (Hw1 : forall q, waiting_of s1 q = if N.eqb q p then rest else waiting_of s q).
      { intro q. unfold s1. now rewrite waiting_with_set. }
      assert (Ha1 : forall q, alloc_of s1 q = if N.eqb q p then ps_alloc ps + p_amt h else alloc_of s q).
      { intro q. unfold s1. now rewrite alloc_with_set. }
      assert (Hsub1 : Sub s s1).
      { intro q. rewrite Hw1. destruct (N.eqb_spec q p) as [->|]; [|now exists []].
        exists [h]. now rewrite Hwp. }
      pose proof (proj1 HQ p) as Hincp. rewrite Hwp in Hincp. destruct Hincp as [Hh Hrest].
      assert (Htk : tkt_lookup (p_tkt h) tk = Some (p, p_amt h)).
      { eapply tkinv_w; eauto. rewrite Hwp. now left. }
      assert (HT1 : TkInv tk s1).
      { apply tkinv_of_waiting. intros q x Hx. eapply tkinv_w; eauto. eapply sub_in; eauto. }
      assert (Help : eligible_at s p).
      { exists h, rest. rewrite Hap. auto. }
      destruct HR as [A B].
      set (w1 := wq_set p (qmap rest) w). set (l1 := led_set p (led_get p l + p_amt h) l).
      destruct (IH s1 (acc ++ [Granted (p_tkt h)]) s' outs ok w1 l1 H)
        as (new & w' & l' & E & Eap & Hpo & Hfe).
      { apply nodup_set, Hnd. }
      { exact HT1. }
      { eapply qo_sub; eauto. }
      { split; intro q.
        - unfold w1. rewrite wq_get_set, Hw1. destruct (N.eqb q p); [reflexivity | apply A].
        - unfold l1. rewrite led_get_set, Ha1. destruct (N.eqb q p); [|apply B].
          rewrite B, Hap. reflexivity. }
      { unfold w1. now apply wq_nodup_set. }
      (* eligibility at s1 of a peer other than p is eligibility at s *)
      assert (Hel1 : forall q, eligible_at s1 q -> q = p \/ eligible_at s q).
      { intros q (hq & rq & Eq & Fq). destruct (N.eqb_spec q p) as [->|Hn]; [now left|]. right.
        rewrite Hw1, Ha1 in *. destruct (N.eqb_spec q p); [contradiction|]. exists hq, rq. auto. }
      (* every later grant has a larger ticket *)
      assert (Hlater : forall o, In o new -> out_tkt (Granted (p_tkt h)) < out_tkt o).
      { intros o Ho. destruct (Hfe o Ho) as (q & x & Hx & -> & Hq). simpl.
        destruct (N.eqb_spec q p) as [->|Hn].
        - rewrite Hw1, N.eqb_refl in Hx. now apply Hh.
        - destruct (Hel1 q Hq) as [->|(hq & rq & Eq & Fq)]; [contradiction|].
          pose proof (head_min s p ps h rest Hnd HQ Emin Epend Fp q hq rq Eq Fq) as Hle.
          assert (Hxs : In x (waiting_of s q)) by (eapply sub_in; eauto).
          assert (Hhx : p_tkt hq <= p_tkt x).
          { pose proof (proj1 HQ q) as Hi. rewrite Eq in Hi, Hxs. destruct Hi as [Hi _].
            destruct Hxs as [<-|Hxs]; [lia | specialize (Hi x Hxs); lia]. }
          assert (Hne : p_tkt h <> p_tkt x).
          { apply (tkt_neq tk s p q h x HT); [rewrite Hwp; now left | exact Hxs | congruence]. }
          lia. }
      exists (Granted (p_tkt h) :: new), w', l'.
      split; [rewrite E, <- app_assoc; reflexivity|].
      split.
      { rewrite applyx_cons.
        assert (Eh : app1x tk f (max_peer s) (Granted (p_tkt h)) w l =
                     Some (wq_set p (qmap rest) w, upd (Granted (p_tkt h)) p (p_amt h) l)).
        { apply app1x_intro.
          - apply min_ok_spec; [exact Hnw|]. intros q t' a' vq _ Ewq Fq.
            rewrite A in Ewq. destruct (waiting_of s q) as [|hq rq] eqn:Eq; [discriminate|].
            simpl in Ewq. inversion Ewq; subst t' a'. rewrite B in Fq.
            eapply (head_min s p ps h rest); eauto.
          - apply (app1_intro tk f (Granted (p_tkt h)) w l p (p_amt h) (p_amt h) (qmap rest)).
            + exact Htk.
            + reflexivity.
            + rewrite A, Hwp. reflexivity. }
        rewrite Eh. exact Eap. }
      split.
      { split; [|exact Hpo]. intros x Hx _. now apply Hlater. }
      intros o [<-|Ho].
      * exists p, h. split; [rewrite Hwp; now left|]. auto.
      * destruct (Hfe o Ho) as (q & x & Hx & Eo & Hq). exists q, x.
        split; [eapply sub_in; eauto|]. split; [exact Eo|].
        destruct (Hel1 q Hq) as [->|Hq']; assumption.
Qed.

(* ---------- per operation ---------- *)
Lemma applyx_fails tk mp f : forall outs w l, (forall o, In o outs -> is_grant o = false) ->
  apply_outs14x tk mp outs w l f = apply_outs14 tk outs w l f.
Proof.
  induction outs as [|o r IH]; intros w l Hf; [reflexivity|].
  rewrite applyx_cons, apply_cons. unfold app1x.
  assert (Eo : min_ok f mp o w l = true).
  { specialize (Hf o (or_introl eq_refl)). destruct o; [discriminate | reflexivity]. }
  rewrite Eo. destruct (app1 tk f o w l) as [[w1 l1]|]; [|reflexivity].
  apply IH. intros x Hx. apply Hf. now right.
Qed.

Lemma pordx_app tk : forall a b, POrdx tk a -> POrdx tk b ->
  (forall x y, In x a -> In y b -> opeer tk y = opeer tk x \/ is_grant x && is_grant y = true ->
               out_tkt x < out_tkt y) ->
  POrdx tk (a ++ b).
Proof.
  induction a as [|o a IH]; intros b Ha Hb Hab; [exact Hb|].
  destruct Ha as [Ho Ha]. simpl. split.
  - intros x Hx Ep. apply in_app_iff in Hx as [Hx|Hx]; [now apply Ho | apply Hab; auto; now left].
  - apply IH; auto. intros x y Hx Hy. apply Hab; auto. now right.
Qed.

Lemma pordx_fails tk : forall pend, tinc pend -> POrdx tk (map (fun x => Failed (p_tkt x)) pend).
Proof.
  induction pend as [|h r IH]; intros Hi; [exact I|].
  destruct Hi as [Hh Hr]. simpl. split; [|now apply IH].
  intros x Hx _. apply in_map_iff in Hx as (y & <- & Hy). simpl. now apply Hh.
Qed.

Lemma sim_release_x tk w l s p a s' outs ok : Rel14 tk w l s ->
  step s (ORelease p a) = (s', outs, false, ok) ->
  exists r, apply_outs14x tk (max_peer s) (sort_outs outs) w
              (led_set p (led_get p l - (if a <=? led_get p l then a else led_get p l)) l) None = Some r.
Proof.
  intros (HG & HT & HQ & [A B] & Hnd & Hsum) E.
  unfold step in E. destruct (lookup p (peers s)) as [ps|] eqn:Hlk; [|discriminate].
  cbv zeta in E.
  match type of E with context [run_pending ?s0 []] => set (s1 := s0) in * end.
  destruct (run_pending s1 []) as [[s2 outs2] ok2] eqn:Erp. inversion E; subst s2 outs2 ok2. clear E.
  set (v := {| ps_alloc := ps_alloc ps - (if a <=? ps_alloc ps then a else ps_alloc ps);
               ps_pend := ps_pend ps |}) in *.
  assert (Hw1 : forall q, waiting_of s1 q = waiting_of s q).
  { intro q. unfold s1. apply (sub_with_set s _ p ps v Hlk eq_refl). }
  assert (Ecur : led_get p l = ps_alloc ps) by (rewrite B; unfold alloc_of; now rewrite Hlk).
  rewrite Ecur.
  set (l1 := led_set p (ps_alloc ps - (if a <=? ps_alloc ps then a else ps_alloc ps)) l).
  destruct HG as [HI HS]. destruct HT as [HTi HB].
  unfold run_pending in Erp.
  destruct (pp_simx tk None _ s1 [] s' outs ok w l1 Erp) as (new & w' & l' & Eo & Eap & Hpo & _).
  { unfold s1. simpl. apply nodup_set, HI. }
  { apply tkinv_of_waiting. intros q x Hx. rewrite Hw1 in Hx. eapply tkinv_w; eauto. }
  { apply (qo_sub s); [now apply qo_of_qinv|]. intro q. exists []. now rewrite Hw1. }
  { split; intro q; [rewrite Hw1; apply A|].
    unfold l1, s1. rewrite led_get_set, alloc_with_set. destruct (N.eqb q p); [reflexivity | apply B]. }
  { exact Hnd. }
  simpl in Eo. subst new. change (max_peer s1) with (max_peer s) in Eap.
  destruct (applyx_sorted _ _ _ _ _ _ _ _ Hnd Hpo Eap) as (w2 & l2 & Es & _ & _). eauto.
Qed.

Lemma sim_release_peer_x tk w l s p s' outs ok : Rel14 tk w l s ->
  step s (OReleasePeer p) = (s', outs, false, ok) ->
  exists r, apply_outs14x tk (max_peer s) (sort_outs outs) w (led_set p 0 l) (Some p) = Some r.
Proof.
  intros (HG & HT & HQ & [A B] & Hnd & Hsum) E.
  unfold step in E. destruct (lookup p (peers s)) as [ps|] eqn:Hlk; [|discriminate].
  cbv zeta in E.
  match type of E with context [run_pending ?s0 ?fl] => set (s1 := s0) in *; set (fails := fl) in * end.
  destruct (run_pending s1 fails) as [[s2 outs2] ok2] eqn:Erp. inversion E; subst s2 outs2 ok2. clear E.
  destruct HG as [HI HS]. destruct HT as [HTi HB].
  pose proof (inv_nodup _ HI) as Hnds.
  assert (Hw1 : forall q, waiting_of s1 q = if N.eqb q p then [] else waiting_of s q).
  { intro q. unfold s1. now apply waiting_with_remove. }
  assert (Ha1 : forall q, alloc_of s1 q = if N.eqb q p then 0 else alloc_of s q).
  { intro q. unfold s1. now apply alloc_with_remove. }
  assert (Hsub1 : Sub s s1).
  { intro q. rewrite Hw1. destruct (N.eqb q p); [exists (waiting_of s q); now rewrite app_nil_r | now exists []]. }
  assert (Ewp : waiting_of s p = ps_pend ps) by now apply waiting_lookup.
  set (l1 := led_set p 0 l).
  destruct (apply_fails tk p (ps_pend ps) w l1) as (wf & Ef & Epf & Hqf).
  { intros x Hx. eapply HTi; eauto. }
  { rewrite A, Ewp. reflexivity. }
  fold fails in Ef.
  assert (Hgf : forall o, In o fails -> is_grant o = false).
  { intros o Ho. unfold fails in Ho. apply in_map_iff in Ho as (z & <- & _). reflexivity. }
  assert (Efx : apply_outs14x tk (max_peer s) fails w l1 (Some p) = Some (wf, l1))
    by (rewrite applyx_fails by exact Hgf; exact Ef).
  assert (HT1 : TkInv tk s1).
  { apply tkinv_of_waiting. intros q x Hx. eapply tkinv_w; eauto. eapply sub_in; eauto. }
  unfold run_pending in Erp.
  destruct (pp_simx tk (Some p) _ s1 fails s' outs ok wf l1 Erp) as (new & w' & l' & Eo & Eap & Hpo & Hfe).
  { unfold s1. simpl. now apply nodup_remove. }
  { exact HT1. }
  { eapply qo_sub; [apply qo_of_qinv; eauto | exact Hsub1]. }
  { split; intro q.
    - rewrite Hw1. destruct (N.eqb_spec q p) as [->|Hn]; [exact Epf|]. rewrite Hqf by exact Hn. apply A.
    - unfold l1. rewrite led_get_set, Ha1. destruct (N.eqb q p); [reflexivity | apply B]. }
  { eapply apply_nodup; eauto. }
  change (max_peer s1) with (max_peer s) in Eap.
  assert (Eall : apply_outs14x tk (max_peer s) outs w l1 (Some p) = Some (w', l')).
  { rewrite Eo, applyx_app, Efx. exact Eap. }
  assert (Hpall : POrdx tk outs).
  { rewrite Eo. apply pordx_app; [|exact Hpo|].
    - unfold fails. apply pordx_fails. rewrite <- Ewp. apply HQ.
    - intros x y Hx Hy [Ep|Eg]; exfalso.
      + unfold fails in Hx. apply in_map_iff in Hx as (z & <- & Hz).
        destruct (Hfe y Hy) as (q & u & Hu & -> & _).
        unfold opeer in Ep. simpl in Ep.
        rewrite (HTi p ps z Hlk Hz), (tkinv_w _ _ _ _ HT1 Hu) in Ep. inversion Ep; subst q.
        rewrite Hw1, N.eqb_refl in Hu. exact Hu.
      + rewrite (Hgf x Hx) in Eg. discriminate. }
  destruct (applyx_sorted _ _ _ _ _ _ _ _ Hnd Hpall Eall) as (w2 & l2 & Es & _ & _). eauto.
Qed.

(* the model's release / release-peer call returns an error only for a peer it does not know, which
   holds nothing and has nothing waiting *)
Lemma err_idle tk w l s o s' outs ok : Rel14 tk w l s ->
  (forall p a, o <> OAlloc p a) -> step s o = (s', outs, true, ok) -> idle_peer (op_peer o) w l = true.
Proof.
  intros (_ & _ & _ & [A B] & _) Hno E.
  assert (Hnone : lookup (op_peer o) (peers s) = None).
  { destruct o as [p a|p a|p]; [now destruct (Hno p a)| |]; simpl; unfold step in E;
      (destruct (lookup p (peers s)) as [ps|]; [|reflexivity]); cbv zeta in E;
      match type of E with context [run_pending ?s0 ?fl] =>
        destruct (run_pending s0 fl) as [[? ?] ?] end; discriminate. }
  unfold idle_peer. rewrite A, B. unfold waiting_of, alloc_of. rewrite Hnone. reflexivity.
Qed.

(* ---------- the stronger monitor accepts every history of the model ---------- *)
Theorem monitor14x_run univ : forall ops s tk w l,
  Rel14 tk w l s ->
  monitor14x (max_total s) (max_peer s) tk (next_tkt s) w l ops (fst (run univ s ops)) = true.
Proof.
  induction ops as [|o ops IH]; intros s tk w l HR; [reflexivity|].
  pose proof HR as (HG & HT & HQ & HRr & Hnd & Hsum).
  destruct (step_spec tk s o HG HT) as (s' & outs & err & E & HP).
  rewrite (run_cons univ s o ops s' outs err true E).
  pose proof HP as (_ & _ & Emt & Emp & Ent & _ & _ & Herr & _).
  destruct o as [p a|p a|p]; cbn [monitor14x].
  - rewrite (now_eq w l s p a HRr Hsum), observe_outs, observe_err.
    pose proof (sim_alloc tk w l s p a s' outs err true HR E HP) as Hs. cbv zeta in Hs.
    assert (Eerr : err = false).
    { destruct (step_alloc tk s p a HG HT) as (s0 & o0 & E0 & _). congruence. }
    subst err.
    destruct (can_grant_now s p a).
    + destruct Hs as [-> HR'].
      cbn [sort_outs fold_right insert_out list_eqb out_eqb negb andb]. rewrite N.eqb_refl.
      pose proof (rel14_stable _ _ _ _ HR') as Hst. rewrite Emt, Emp in Hst. rewrite Hst.
      specialize (IH s' _ _ _ HR'). rewrite Emt, Emp, Ent in IH. rewrite IH. reflexivity.
    + destruct Hs as [-> HR'].
      cbn [sort_outs fold_right list_eqb negb andb].
      pose proof (rel14_stable _ _ _ _ HR') as Hst. rewrite Emt, Emp in Hst. rewrite Hst.
      specialize (IH s' _ _ _ HR'). rewrite Emt, Emp, Ent in IH. rewrite IH. reflexivity.
  - rewrite observe_outs, observe_err. destruct err.
    + pose proof (err_idle tk w l s (ORelease p a) s' outs true HR ltac:(intros; discriminate) E) as Hidle.
      cbn [op_peer] in Hidle. rewrite Hidle.
      destruct (Herr eq_refl) as [-> ->]. cbn [sort_outs fold_right list_eqb andb]. now apply IH.
    + destruct (sim_release tk w l s p a s' outs true HR E HP) as (w' & l' & Eap & HR' & _).
      destruct (sim_release_x tk w l s p a s' outs true HR E) as (r & Ex).
      pose proof (applyx_sound _ _ _ _ _ _ _ Ex) as Es. rewrite Eap in Es. inversion Es; subst r.
      rewrite Ex.
      pose proof (rel14_stable _ _ _ _ HR') as Hst. rewrite Emt, Emp in Hst. rewrite Hst.
      specialize (IH s' _ _ _ HR'). rewrite Emt, Emp, Ent in IH. rewrite IH. reflexivity.
  - rewrite observe_outs, observe_err. destruct err.
    + pose proof (err_idle tk w l s (OReleasePeer p) s' outs true HR ltac:(intros; discriminate) E) as Hidle.
      cbn [op_peer] in Hidle. rewrite Hidle.
      destruct (Herr eq_refl) as [-> ->]. cbn [sort_outs fold_right list_eqb andb]. now apply IH.
    + destruct (sim_release_peer tk w l s p s' outs true HR E HP) as (w' & l' & Eap & Ewp & HR' & _).
      destruct (sim_release_peer_x tk w l s p s' outs true HR E) as (r & Ex).
      pose proof (applyx_sound _ _ _ _ _ _ _ Ex) as Es. rewrite Eap in Es. inversion Es; subst r.
      rewrite Ex, Ewp.
      pose proof (rel14_stable _ _ _ _ HR') as Hst. rewrite Emt, Emp in Hst. rewrite Hst.
      specialize (IH s' _ _ _ HR'). rewrite Emt, Emp, Ent in IH. rewrite IH. reflexivity.
Qed.

Theorem c14_monitor_x : forall mt mp univ ops,
  monitor_C14x mt mp ops (fst (run univ (init mt mp) ops)) = true.
Proof.
  intros mt mp univ ops. exact (monitor14x_run univ ops (init mt mp) [] [] [] (rel14_init mt mp)).
Qed.

(* ---------- the cross-peer order clause stated on the model directly ---------- *)
Lemma fits_down a b x m : a <= b -> fits b x m = true -> fits a x m = true.
Proof. unfold fits. intros H F. apply N.leb_le in F. apply N.leb_le. lia. Qed.

(* after a run of processPendingAllocations: a queue head that is still waiting and fits its own
   peer's limit was requested later than everything the run granted *)
Definition later_than_grants (s' : st) (mp : N) (new : list out) : Prop :=
  forall t, In (Granted t) new -> forall q hq r, waiting_of s' q = hq :: r ->
    fits (alloc_of s' q) (p_amt hq) mp = true -> t < p_tkt hq.

Lemma pp_nopass tk : forall fuel s acc s' outs ok,
  process_pending fuel s acc = (s', outs, ok) ->
  NoDup (keys (peers s)) -> TkInv tk s -> QO s ->
  exists new, outs = acc ++ new /\ Sub s s' /\
    (forall q, alloc_of s q <= alloc_of s' q) /\
    (forall q, waiting_of s' q = waiting_of s q \/ eligible_at s q) /\
    later_than_grants s' (max_peer s) new.
Proof.
  induction fuel as [|fu IH]; intros s acc s' outs ok H Hnd HT HQ.
  - simpl in H. inversion H; subst. exists []. rewrite app_nil_r.
    split; [reflexivity|]. split; [apply sub_refl|]. split; [intro; lia|]. split; [now left|].
    intros t [].
  - assert (Hstop : forall s0 outs0 ok0, (s, acc, true) = (s0, outs0, ok0) ->
      exists new, outs0 = acc ++ new /\ Sub s s0 /\
        (forall q, alloc_of s q <= alloc_of s0 q) /\
        (forall q, waiting_of s0 q = waiting_of s q \/ eligible_at s q) /\
        later_than_grants s0 (max_peer s) new).
    { intros s0 outs0 ok0 E. inversion E; subst. exists []. rewrite app_nil_r.
      split; [reflexivity|]. split; [apply sub_refl|]. split; [intro; lia|]. split; [now left|].
      intros t []. }
    simpl in H. destruct (min_peer (max_peer s) (peers s)) as [[p ps]|] eqn:Emin; [|exact (Hstop _ _ _ H)].
    pose proof (min_peer_in _ _ _ Emin) as Hin.
    pose proof (in_lookup _ _ _ Hnd Hin) as Hlk.
    destruct (ps_pend ps) as [|h rest] eqn:Epend.
    + destruct (N.ltb_spec 0 (ps_alloc ps)) as [Hpos|Hz]; [exact (Hstop _ _ _ H)|].
      assert (Ha : ps_alloc ps = 0) by lia.
      set (s1 := with_peers s (total s) (remove p (peers s))) in *.
      assert (Hw1 : forall q, waiting_of s1 q = waiting_of s q).
      { intro q. unfold s1. rewrite waiting_with_remove by exact Hnd.
        destruct (N.eqb_spec q p) as [->|]; [|reflexivity].
        now rewrite (waiting_lookup _ _ _ Hlk). }
      assert (Ha1 : forall q, alloc_of s1 q = alloc_of s q).
      { intro q. unfold s1. rewrite alloc_with_remove by exact Hnd.
        destruct (N.eqb_spec q p) as [->|]; [|reflexivity].
        unfold alloc_of. now rewrite Hlk. }
      destruct (IH s1 acc s' outs ok H) as (new & E & HS' & HM & HK & HNP).
      { apply nodup_remove, Hnd. }
      { apply tkinv_of_waiting. intros q x Hx. rewrite Hw1 in Hx. eapply tkinv_w; eauto. }
      { apply (qo_sub s); [exact HQ|]. intro q. exists []. now rewrite Hw1. }
      exists new. split; [exact E|].
      split; [intro q; destruct (HS' q) as [pre Eq]; exists pre; now rewrite <- Hw1|].
      split; [intro q; rewrite <- Ha1; apply HM|].
      split; [|exact HNP].
      intro q. destruct (HK q) as [Eq|(hq & rq & Eq & Fq)]; [left; now rewrite <- Hw1|].
      right. exists hq, rq. rewrite <- Hw1, <- Ha1. auto.
    + destruct (fits (total s) (p_amt h) (max_total s)) eqn:Ft; simpl in H; [|exact (Hstop _ _ _ H)].
      destruct (fits (ps_alloc ps) (p_amt h) (max_peer s)) eqn:Fp; simpl in H; [|exact (Hstop _ _ _ H)].
      set (v := {| ps_alloc := ps_alloc ps + p_amt h; ps_pend := rest |}) in *.
      set (s1 := with_peers s (total s + p_amt h) (set p v (peers s))) in *.
      assert (Hwp : waiting_of s p = h :: rest) by (rewrite (waiting_lookup _ _ _ Hlk); exact Epend).
      assert (Hap : alloc_of s p = ps_alloc ps) by (unfold alloc_of; now rewrite Hlk).
      assert (Hw1 : forall q, waiting_of s1 q = if N.eqb q p then rest else waiting_of s q).
      { intro q. unfold s1. now rewrite waiting_with_set. }
      assert (Ha1 : forall q, alloc_of s1 q = if N.eqb q p then ps_alloc ps + p_amt h else alloc_of s q).
      { intro q. unfold s1. now rewrite alloc_with_set. }
      assert (Hsub1 : Sub s s1).
      { intro q. rewrite Hw1. destruct (N.eqb_spec q p) as [->|]; [|now exists []].
        exists [h]. now rewrite Hwp. }
      pose proof (proj1 HQ p) as Hincp. rewrite Hwp in Hincp. destruct Hincp as [Hh Hrest].
      assert (HT1 : TkInv tk s1).
      { apply tkinv_of_waiting. intros q x Hx. eapply tkinv_w; eauto. eapply sub_in; eauto. }
      assert (Help : eligible_at s p) by (exists h, rest; rewrite Hap; auto).
      destruct (IH s1 (acc ++ [Granted (p_tkt h)]) s' outs ok H) as (new & E & HS' & HM & HK & HNP).
      { apply nodup_set, Hnd. }
      { exact HT1. }
      { eapply qo_sub; eauto. }
      assert (Hel1 : forall q, eligible_at s1 q -> q = p \/ eligible_at s q).
      { intros q (hq & rq & Eq & Fq). destruct (N.eqb_spec q p) as [->|Hn]; [now left|]. right.
        rewrite Hw1, Ha1 in *. destruct (N.eqb_spec q p); [contradiction|]. exists hq, rq. auto. }
      exists (Granted (p_tkt h) :: new). split; [rewrite E, <- app_assoc; reflexivity|].
      split; [eapply sub_trans; eauto|].
      split.
      { intro q. pose proof (HM q) as HMq. rewrite Ha1 in HMq.
        destruct (N.eqb_spec q p) as [Eqp|Hn]; [|exact HMq].
        rewrite Eqp, Hap. rewrite Eqp in HMq. lia. }
      split.
      { intro q. destruct (N.eqb_spec q p) as [->|Hn]; [now right|].
        destruct (HK q) as [Eq|Hq].
        - left. rewrite Eq, Hw1. destruct (N.eqb_spec q p); [contradiction | reflexivity].
        - right. destruct (Hel1 q Hq); [contradiction | assumption]. }
      intros t [Et|Ht]; [|now apply HNP].
      inversion Et; subst t. intros q hq r Eq Fq.
      assert (Hhq1 : In hq (waiting_of s1 q)) by (eapply sub_in; [exact HS'|]; rewrite Eq; now left).
      destruct (N.eqb_spec q p) as [->|Hn].
      { rewrite Hw1, N.eqb_refl in Hhq1. now apply Hh. }
      assert (Hws : waiting_of s1 q = waiting_of s q).
      { rewrite Hw1. destruct (N.eqb_spec q p); [contradiction | reflexivity]. }
      assert (Has : alloc_of s1 q = alloc_of s q).
      { rewrite Ha1. destruct (N.eqb_spec q p); [contradiction | reflexivity]. }
      assert (Hhqs : In hq (waiting_of s q)) by now rewrite <- Hws.
      assert (Hne : p_tkt h <> p_tkt hq).
      { apply (tkt_neq tk s p q h hq HT); [rewrite Hwp; now left | exact Hhqs | congruence]. }
      destruct (HK q) as [Eq1|Hq1].
      * (* q's queue was not touched by the rest of the run *)
        assert (Eqs : waiting_of s q = hq :: r) by (rewrite <- Hws, <- Eq1; exact Eq).
        assert (Fqs : fits (alloc_of s q) (p_amt hq) (max_peer s) = true).
        { apply (fits_down _ (alloc_of s' q)); [|exact Fq]. rewrite <- Has. apply HM. }
        pose proof (head_min s p ps h rest Hnd HQ Emin Epend Fp q hq r Eqs Fqs). lia.
      * destruct (Hel1 q Hq1) as [->|(h0 & r0 & E0 & F0)]; [contradiction|].
        pose proof (head_min s p ps h rest Hnd HQ Emin Epend Fp q h0 r0 E0 F0) as Hle.
        pose proof (proj1 HQ q) as Hi. rewrite E0 in Hi, Hhqs. destruct Hi as [Hi _].
        destruct Hhqs as [<-|Hhqs]; [lia | specialize (Hi hq Hhqs); lia].
Qed.

(* one release / release-peer call from a state related to a monitor state *)
Lemma step_nopass tk w l s o : Rel14 tk w l s ->
  match o with
  | OAlloc _ _ => True
  | _ => let '(s', outs, err, ok) := step s o in later_than_grants s' (max_peer s') outs
  end.
Proof.
  intros (HG & HT & HQ & _). destruct HG as [HI HS]. destruct HT as [HTi HB].
  pose proof (inv_nodup _ HI) as Hnds.
  destruct o as [p a|p a|p]; [exact I| |].
  - unfold step. destruct (lookup p (peers s)) as [ps|] eqn:Hlk; [|intros t []].
    cbv zeta.
    match goal with |- context [run_pending ?s0 []] => set (s1 := s0) end.
    destruct (run_pending s1 []) as [[s2 outs2] ok2] eqn:Erp.
    set (v := {| ps_alloc := ps_alloc ps - (if a <=? ps_alloc ps then a else ps_alloc ps);
                 ps_pend := ps_pend ps |}) in *.
    assert (Hw1 : forall q, waiting_of s1 q = waiting_of s q).
    { intro q. unfold s1. apply (sub_with_set s _ p ps v Hlk eq_refl). }
    unfold run_pending in Erp.
    destruct (pp_nopass tk _ s1 [] s2 outs2 ok2 Erp) as (new & Eo & _ & _ & _ & HNP).
    { unfold s1. simpl. apply nodup_set, HI. }
    { apply tkinv_of_waiting. intros q x Hx. rewrite Hw1 in Hx. eapply tkinv_w; eauto. }
    { apply (qo_sub s); [now apply qo_of_qinv|]. intro q. exists []. now rewrite Hw1. }
    simpl in Eo. subst new.
    destruct (process_pending_spec tk (pp_fuel s1) s1 []) as (s2' & new' & E' & _ & _ & (_ & Emp & _) & _).
    { pose proof (psum_ge _ _ _ Hlk) as Hge. rewrite <- (inv_sum _ HI) in Hge.
      set (eff := if a <=? ps_alloc ps then a else ps_alloc ps) in *.
      assert (Heff : eff <= ps_alloc ps) by (unfold eff; destruct (N.leb_spec a (ps_alloc ps)); lia).
      constructor; unfold s1; simpl.
      - apply nodup_set, HI.
      - pose proof (psum_set p v (peers s)) as Ep. unfold alloc_l in Ep. rewrite Hlk in Ep.
        rewrite (inv_sum _ HI) in *. simpl in Ep. destruct (N.leb_spec eff (psum (peers s))); lia.
      - pose proof (inv_tot _ HI). destruct (N.leb_spec eff (total s)); lia.
      - intros q qs Hq. destruct (N.eqb_spec p q) as [->|Hn].
        + rewrite lookup_set_eq in Hq. inversion Hq; subst. simpl.
          pose proof (inv_peer _ HI _ _ Hlk). lia.
        + rewrite lookup_set_neq in Hq by assumption. eapply inv_peer; eauto. }
    { apply tkinv_of_waiting. intros q x Hx. rewrite Hw1 in Hx. eapply tkinv_w; eauto. }
    { unfold pp_measure, pp_fuel. lia. }
    rewrite Erp in E'. assert (Es2 : s2 = s2') by congruence. subst s2'. rewrite Emp. exact HNP.
  - unfold step. destruct (lookup p (peers s)) as [ps|] eqn:Hlk; [|intros t []].
    cbv zeta.
    match goal with |- context [run_pending ?s0 ?fl] => set (s1 := s0); set (fails := fl) end.
    destruct (run_pending s1 fails) as [[s2 outs2] ok2] eqn:Erp.
    assert (Hw1 : forall q, waiting_of s1 q = if N.eqb q p then [] else waiting_of s q).
    { intro q. unfold s1. now apply waiting_with_remove. }
    assert (Hsub1 : Sub s s1).
    { intro q. rewrite Hw1. destruct (N.eqb q p); [exists (waiting_of s q); now rewrite app_nil_r | now exists []]. }
    assert (HT1 : TkInv tk s1).
    { apply tkinv_of_waiting. intros q x Hx. eapply tkinv_w; eauto. eapply sub_in; eauto. }
    unfold run_pending in Erp.
    destruct (pp_nopass tk _ s1 fails s2 outs2 ok2 Erp) as (new & Eo & _ & _ & _ & HNP).
    { unfold s1. simpl. now apply nodup_remove. }
    { exact HT1. }
    { eapply qo_sub; [apply qo_of_qinv; eauto | exact Hsub1]. }
    destruct (process_pending_spec tk (pp_fuel s1) s1 fails) as (s2' & new' & E' & _ & _ & (_ & Emp & _) & _).
    { pose proof (psum_ge _ _ _ Hlk) as Hge. rewrite <- (inv_sum _ HI) in Hge.
      constructor; unfold s1; simpl.
      - apply nodup_remove, HI.
      - pose proof (psum_remove p (peers s)) as E1. unfold alloc_l in E1. rewrite Hlk in E1.
        rewrite (inv_sum _ HI) in *. destruct (N.leb_spec (ps_alloc ps) (psum (peers s))); lia.
      - pose proof (inv_tot _ HI). destruct (N.leb_spec (ps_alloc ps) (total s)); lia.
      - intros q qs Hq. destruct (N.eqb_spec p q) as [->|Hn].
        + rewrite lookup_remove_eq in Hq by apply HI. discriminate.
        + rewrite lookup_remove_neq in Hq by assumption. eapply inv_peer; eauto. }
    { exact HT1. }
    { unfold pp_measure, pp_fuel. lia. }
    rewrite Erp in E'. assert (Es2 : s2 = s2') by congruence. subst s2'. rewrite Emp.
    intros t Ht. rewrite Eo in Ht. apply in_app_iff in Ht as [Ht|Ht].
    + unfold fails in Ht. apply in_map_iff in Ht as (z & Ez & _). discriminate.
    + now apply HNP.
Qed.

(* In every release / release-peer call from every reachable state: whatever is still waiting at the
   head of its peer's queue after the call and fits its own peer's limit was requested later than
   every allocation the call granted.  So no waiting allocation is granted while an
   earlier-requested waiting allocation of ANY peer that fits its own peer's limit is passed over. *)
Theorem c14_no_pass_over : forall mt mp ops o,
  let s := final (init mt mp) ops in
  match o with
  | OAlloc _ _ => True
  | _ => let '(s', outs, err, ok) := step s o in
         forall t, In (Granted t) outs ->
         forall q hq r, waiting_of s' q = hq :: r ->
           fits (alloc_of s' q) (p_amt hq) (max_peer s') = true -> t < p_tkt hq
  end.
Proof.
  intros mt mp ops o s.
  destruct (final_rel14 ops _ _ _ _ (rel14_init mt mp)) as (tk & w & l & HR). fold s in HR.
  exact (step_nopass tk w l s o HR).
Qed.
