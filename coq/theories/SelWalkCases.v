(* SelWalkCases.v — entry points for the C08 correspondence run.  Deliberately independent of the
   proof file, so that cases can still be evaluated when a regenerated spec breaks a proof. *)
From Coq Require Import List String ZArith NArith Bool.
From GS Require Import SelWalk.
From GSgen Require Import GenMaxDepthSel.

Definition scase_agrees (c : scase) : bool :=
  Bool.eqb (validate max_depth_spec (sc_max c) (sc_node c)) (sc_go_accepts c) &&
  match sc_sel c with Some s => node_equiv 2000 (to_node s) (sc_node c) | None => true end.
Definition scase_mon (c : scase) : bool :=
  match sc_sel c with Some s => Bool.eqb (sc_go_accepts c) (all_limits_le (sc_max c) s) | None => true end.

(* Whole-stack cases (driver e2eval): a responder with default settings received a request with selector
   [vc_sel] while the application's request hook did [vc_hook] (0 nothing, 1 pause the response, 2 set a link
   budget; it never validates).  The request must be answered with RequestRejected iff some recursion limit is
   none or above the default depth (regenerated from impl/graphsync.go), whatever else the hook asked for, and a
   rejected request receives no block. *)
Record vcase := { vc_sel : sel; vc_hook : N; vc_rejected : bool; vc_blocks : N }.
Definition vcase_ok (c : vcase) : bool :=
  Bool.eqb (vc_rejected c) (negb (all_limits_le default_max_depth (vc_sel c))) &&
  (if vc_rejected c then N.eqb (vc_blocks c) 0 else true).
