(* SelWalkCases.v — entry points for the C08 correspondence run.  Deliberately independent of the
   proof file, so that cases can still be evaluated when a regenerated spec breaks a proof. *)
From Coq Require Import List String ZArith Bool.
From GS Require Import SelWalk.
From GSgen Require Import GenMaxDepthSel.

Definition scase_agrees (c : scase) : bool :=
  Bool.eqb (validate max_depth_spec (sc_max c) (sc_node c)) (sc_go_accepts c) &&
  match sc_sel c with Some s => node_equiv 2000 (to_node s) (sc_node c) | None => true end.
Definition scase_mon (c : scase) : bool :=
  match sc_sel c with Some s => Bool.eqb (sc_go_accepts c) (all_limits_le (sc_max c) s) | None => true end.
