(* ReqMgrLive.v — outcome lemmas for the actor loop's handlers and progress of the collector side (C04). *)
From Coq Require Import List NArith Bool Arith Lia.
From GS Require Import Base ReqMgr ReqMgrProofs.
Import ListNotations.
Open Scope nat_scope.

(* =====================================================================================
   T4a. The loop handling a cancel message (caller context via cancelRequestAndClose, or the
   CancelRequest API) for a request that is in the table sends exactly one cancel message to the
   responder in that step and cancels the request locally: either it is running and its context is
   now cancelled with the loader offline, or termination has begun (terminal error being handed over,
   or entry already deleted).  An API cancel records RequestClientCancelledErr unless a terminal error
   was recorded before.
   ===================================================================================== *)
Definition locally_cancelled (s : st) : Prop :=
  (exists en, ent s = Some en /\ e_state en = Running /\ rctx s = true /\ ropen s = false) \/
  (exists e rel, lpc s = LTermSend e rel) \/ ent s = None.

Lemma cancel_handled api s en :
  ent s = Some en ->
  exists s1, handle (MCancel api) s = Some (s1, [EvSend OCancel]) /\ locally_cancelled s1 /\
             (api = true -> e_terr en = None ->
              (exists e1, ent s1 = Some e1 /\ e_terr e1 = Some ErrCC))  .
Proof.
  intro E. unfold handle. rewrite E. eexists. split; [reflexivity|].
  unfold locally_cancelled, cancel_on_error, terminate, term2, term3.
  destruct en as [stt terr w started]. simpl.
  destruct stt, terr, api, started; simpl; split;
    try (left; eexists; repeat split; reflexivity);
    try (right; left; eexists; eexists; reflexivity);
    try (right; right; reflexivity);
    intros; try discriminate; try (eexists; split; reflexivity).
Qed.

(* T2a. A failure status n processed for a request in the table whose terminal error is still unset
   records exactly AsError(n) as the terminal error and cancels the request locally; it sends nothing. *)
Lemma failure_handled r n s en :
  ent s = Some en -> e_terr en = None -> r_hookerr r = false -> r_status r = SFail n ->
  exists s1, handle (MResp r) s = Some (s1, []) /\ locally_cancelled s1 /\
             ((exists e1, ent s1 = Some e1 /\ e_terr e1 = Some (ErrStatus n)) ).
Proof.
  intros E T Hh Hs. unfold handle. rewrite E, Hh, Hs.
  destruct en as [stt terr w started]. simpl in T. subst terr.
  unfold locally_cancelled, cancel_on_error, terminate, term2, term3. simpl.
  destruct stt, started, (ropen s); simpl; eexists; (split; [reflexivity|]); split;
    try (left; eexists; repeat split; reflexivity);
    try (right; left; eexists; eexists; reflexivity);
    try (eexists; split; reflexivity).
Qed.

(* a later terminal cause never replaces a recorded terminal error *)
Lemma terr_sticky e eo s x : e_terr e = Some x ->
  match ent (cancel_on_error e eo s) with Some e1 => e_terr e1 = Some x | None => True end.
Proof.
  intro T. unfold cancel_on_error, terminate, term2, term3. rewrite T.
  destruct (e_state e), (e_started e); simpl; auto; rewrite T; simpl; auto.
Qed.

(* The two repairs, as facts about the model of the repaired code:
   (1f71cc8) a cancelled request never goes online / sends its request;
   (5063fd7) a cancelled running request is never parked as paused by its release. *)
Lemma go_online_cancelled c consumed s :
  xpc s = XGoOnline consumed -> rctx s = true ->
  exec_step c s = Some (s_xpc (XRelease false) (s_rq 0 s), []).
Proof. intros X R. unfold exec_step. rewrite X, R. reflexivity. Qed.

Lemma release_cancelled_terminates p s en :
  ent s = Some en -> xpc s = XAwaitDone -> rctx s = true ->
  handle (MRelease p) s = Some (terminate en true s, []).
Proof. intros E X R. unfold handle. rewrite E, X, R. rewrite andb_false_r. reflexivity. Qed.

(* =====================================================================================
   Progress of the collector side.  Once the actor loop has closed the internal channels
   (terminateRequest ran to its end), and as long as the caller keeps reading, the two collector
   goroutines always have an enabled step until both returned channels are closed, and every such
   step decreases a natural-number measure.
   ===================================================================================== *)
Definition coll_labels : list label :=
  [LCallerRecvP; LCallerRecvE; LRC RCtx; LRC RSeeClosedP; LRC RSeeClosedE; LRC RSendCancel; LEC ECtx; LEC ESeeClosed].

(* the collectors' loop conditions have been re-evaluated (true after every step) *)
Definition NF (s : st) : Prop :=
  (rc s = RCRun false -> rbuf s <> 0) /\ rc s <> RCDrain true false false /\ (ec s = ECRun false -> ebuf s <> []).

Lemma enabled_raw s l : enabled s l = match step_raw s l with Some _ => true | None => false end.
Proof. unfold enabled, step. destruct (step_raw s l); reflexivity. Qed.

Lemma rc_norm_frame s : ec (fst (rc_norm s)) = ec s /\ ebuf (fst (rc_norm s)) = ebuf s.
Proof. unfold rc_norm. dmg; simpl; auto. Qed.
Lemma rc_norm_nf s : let s' := fst (rc_norm s) in (rc s' = RCRun false -> rbuf s' <> 0) /\ rc s' <> RCDrain true false false.
Proof.
  unfold rc_norm. dmg; simpl; split; try congruence; intros; try congruence.
  all: try (apply Nat.eqb_neq; congruence).
Qed.
Lemma ec_norm_frame s : rc (fst (ec_norm s)) = rc s /\ rbuf (fst (ec_norm s)) = rbuf s.
Proof. unfold ec_norm. dmg; simpl; auto. Qed.
Lemma ec_norm_nf s : let s' := fst (ec_norm s) in ec s' = ECRun false -> ebuf s' <> [].
Proof. unfold ec_norm. dmg; simpl; congruence. Qed.

Lemma step_nf s l s' es : step s l = Some (s', es) -> NF s'.
Proof.
  unfold step. destruct (step_raw s l) as [[sa ea]|]; [|discriminate]. unfold with_norm.
  destruct (rc_norm sa) as [sb eb] eqn:RN. destruct (ec_norm sb) as [sc ec'] eqn:EN. intro H. inv H.
  pose proof (rc_norm_nf sa) as [N1 N2]. rewrite RN in N1, N2. simpl in N1, N2.
  pose proof (ec_norm_frame sb) as [F1 F2]. pose proof (ec_norm_nf sb) as N3. rewrite EN in F1, F2, N3. simpl in *.
  unfold NF. rewrite F1, F2. auto.
Qed.

Definition rc_m (s : st) : nat :=
  match rc s with
  | RCRun true => 5 + rbuf s
  | RCRun false => 1 + rbuf s
  | RCDrain a b c => 1 + (if a then 0 else 1) + (if b then 1 else 0) + (if c then 1 else 0)
  | RCExit => 0
  end.
Definition ec_m (s : st) : nat :=
  match ec s with
  | ECRun true => 4 + length (ebuf s)
  | ECRun false => 1 + length (ebuf s)
  | ECSendCC true => 2 + length (ebuf s)
  | ECSendCC false => 1
  | ECExit => 0
  end.
Definition coll_m (s : st) : nat := rc_m s + ec_m s.

Lemma rc_norm_m s : rc_m (fst (rc_norm s)) <= rc_m s.
Proof. unfold rc_norm, rc_m. destruct (rc s) as [[|]|[|] [|] [|]|] eqn:R; try destruct (rbuf s =? 0); simpl; rewrite ?R; simpl; lia. Qed.
Lemma ec_norm_m s : ec_m (fst (ec_norm s)) <= ec_m s.
Proof. unfold ec_norm, ec_m. destruct (ec s) as [[|]|[|]|] eqn:R, (ebuf s) eqn:B; simpl; rewrite ?R, ?B; simpl; lia. Qed.
Lemma rc_norm_ecm s : ec_m (fst (rc_norm s)) = ec_m s.
Proof. unfold ec_m. destruct (rc_norm_frame s) as [-> ->]. reflexivity. Qed.
Lemma ec_norm_rcm s : rc_m (fst (ec_norm s)) = rc_m s.
Proof. unfold rc_m. destruct (ec_norm_frame s) as [-> ->]. reflexivity. Qed.

Lemma with_norm_m r : coll_m (fst (with_norm r)) <= coll_m (fst r).
Proof.
  destruct r as [s e]. unfold with_norm. destruct (rc_norm s) as [sb eb] eqn:RN. destruct (ec_norm sb) as [sc ec'] eqn:EN.
  simpl. unfold coll_m.
  pose proof (rc_norm_m s) as A. pose proof (rc_norm_ecm s) as B. rewrite RN in A, B. simpl in A, B.
  pose proof (ec_norm_m sb) as C. pose proof (ec_norm_rcm sb) as D. rewrite EN in C, D. simpl in C, D. lia.
Qed.

Lemma coll_raw_rank s l sa ea :
  NF s -> In l coll_labels -> step_raw s l = Some (sa, ea) -> coll_m sa < coll_m s.
Proof.
  intros (N1 & N2 & N3) Hin H. unfold coll_m, rc_m, ec_m.
  simpl in Hin. repeat (destruct Hin as [<-|Hin]; [simpl in H; dm H; inv H; simpl; rw; simpl;
     try lia; try (dmg; simpl; lia); try (destruct (ebuf s); [exfalso; now apply N3|simpl; lia]);
     try (exfalso; apply N2; congruence) |]); try contradiction.
Qed.

Theorem coll_rank s l s' es :
  NF s -> In l coll_labels -> step s l = Some (s', es) -> coll_m s' < coll_m s.
Proof.
  intros N Hin H. unfold step in H. destruct (step_raw s l) as [[sa ea]|] eqn:R; [|discriminate].
  pose proof (coll_raw_rank _ _ _ _ N Hin R) as A. pose proof (with_norm_m (sa, ea)) as B.
  destruct (with_norm (sa, ea)) as [s1 e1]. simpl in B. inv H. lia.
Qed.

Theorem coll_no_stuck s :
  NF s -> iclosed s = true -> both_closed s = false ->
  exists l, In l coll_labels /\ enabled s l = true.
Proof.
  intros (N1 & N2 & N3) IC BC. unfold both_closed in BC.
  destruct (rc s) as [[|]| [|] [|] [|] |] eqn:R.
  - exists (LRC RSeeClosedP). split; [simpl; tauto|]. rewrite enabled_raw. simpl. rewrite R, IC. reflexivity.
  - exists LCallerRecvP. split; [simpl; tauto|]. rewrite enabled_raw. simpl. rewrite R.
    destruct (rbuf s); [exfalso; now apply N1 | reflexivity].
  - exists (LRC RSeeClosedP). split; [simpl; tauto|]. rewrite enabled_raw. simpl. rewrite R, IC. reflexivity.
  - exists (LRC RSeeClosedP). split; [simpl; tauto|]. rewrite enabled_raw. simpl. rewrite R, IC. reflexivity.
  - exists (LRC RSeeClosedE). split; [simpl; tauto|]. rewrite enabled_raw. simpl. rewrite R, IC. reflexivity.
  - exfalso. now apply N2.
  - exists (LRC RSendCancel). split; [simpl; tauto|]. rewrite enabled_raw. simpl. rewrite R. reflexivity.
  - exists (LRC RSendCancel). split; [simpl; tauto|]. rewrite enabled_raw. simpl. rewrite R. reflexivity.
  - exists (LRC RSendCancel). split; [simpl; tauto|]. rewrite enabled_raw. simpl. rewrite R. reflexivity.
  - exists (LRC RSendCancel). split; [simpl; tauto|]. rewrite enabled_raw. simpl. rewrite R. reflexivity.
  - destruct (ec s) as [[|]|b|] eqn:E; try discriminate.
    + exists (LEC ESeeClosed). split; [simpl; tauto|]. rewrite enabled_raw. simpl. rewrite E, IC. reflexivity.
    + exists LCallerRecvE. split; [simpl; tauto|]. rewrite enabled_raw. simpl. rewrite E.
      destruct (ebuf s); [exfalso; now apply N3 | reflexivity].
    + exists LCallerRecvE. split; [simpl; tauto|]. rewrite enabled_raw. simpl. rewrite E.
      destruct b, (ebuf s); reflexivity.
Qed.

(* the internal channels stay closed, so the two theorems apply until both returned channels are closed *)
Lemma coll_keeps_closed s l s' es :
  In l coll_labels -> step s l = Some (s', es) -> iclosed s' = iclosed s.
Proof.
  intros Hin H. unfold step in H. destruct (step_raw s l) as [[sa ea]|] eqn:R; [|discriminate]. inv H.
  assert (iclosed sa = iclosed s).
  { simpl in Hin. repeat (destruct Hin as [<-|Hin]; [simpl in R; dm R; inv R; simpl; congruence|]). contradiction. }
  unfold with_norm in H1. destruct (rc_norm sa) as [sb eb] eqn:RN. destruct (ec_norm sb) as [sc ec'] eqn:EN. inv H1.
  unfold rc_norm in RN. unfold ec_norm in EN. dm RN; inv RN; dm EN; inv EN; simpl; auto.
Qed.
