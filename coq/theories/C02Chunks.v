(* C02Chunks.v — C02 for requests that go online at the root, the response cut into ANY number of messages
   arriving at ANY time relative to the traversal's loads (delivery independence): instance of the
   simulation of C02Online.v whose "not yet consumed response" is queue ++ undelivered messages. *)
From Coq Require Import List NArith Bool Lia.
From GS Require Import Base Ltree RecLoader ReqExec RecLoaderProofs C02Online.
Import ListNotations.
Open Scope N_scope.
Local Arguments N.add : simpl never.

Section Chunks.
  Variable R : store.

  (* ---- IngestResponse on one chunk of the honest stream, whatever was sent before ---- *)
  Lemma eok_ext its s1 s2 : (forall c, existsb (N.eqb c) s1 = existsb (N.eqb c) s2) -> eok R s1 its -> eok R s2 its.
  Proof.
    revert s1 s2. induction its as [|it its IH]; intros s1 s2 Hs H; simpl in *; [exact I|].
    destruct (i_act it); try contradiction.
    - destruct H as (b0 & A & B & C). exists b0. rewrite <- Hs. repeat split; auto.
      apply (IH (i_link it :: s1)); [|exact C]. intro c. simpl. now rewrite Hs.
    - destruct H as (A & B & C). repeat split; auto. now apply (IH s1).
  Qed.

  (* no block travels for a link already sent *)
  Lemma blocks_of_seen its seen c : eok R seen its -> existsb (N.eqb c) seen = true -> aget c (blocks_of its) = None.
  Proof.
    revert seen. induction its as [|it its IH]; intros seen H Hc; simpl in *; [reflexivity|].
    destruct (i_act it) eqn:Ea; try contradiction.
    - destruct H as (b & A & B & C). rewrite B.
      destruct (existsb (N.eqb (i_link it)) seen) eqn:Es; cbn [negb app].
      + apply (IH (i_link it :: seen) C). simpl. now rewrite Hc, orb_true_r.
      + cbn [aget]. destruct (N.eqb_spec c (i_link it)) as [->|Hn]; [congruence|].
        apply (IH (i_link it :: seen) C). simpl. now rewrite Hc, orb_true_r.
    - destruct H as (A & B & C). rewrite B. cbn [app]. now apply (IH seen).
  Qed.

  Lemma ingest_gen2 blocks seen dups suf :
    (forall k v, In (k, v) blocks -> aget k R = Some v) ->
    incl (blocks_of suf) blocks -> eok R seen suf ->
    (forall c, existsb (N.eqb c) dups = true -> existsb (N.eqb c) seen = true) ->
    (forall c, existsb (N.eqb c) seen = true -> existsb (N.eqb c) dups = false -> aget c blocks = None) ->
    ingest_items (md_list suf) blocks dups = suf.
  Proof.
    intros HB. revert seen dups. induction suf as [|[l a bo] suf IH]; intros seen dups Hi Hok Hd1 Hd2; [reflexivity|].
    cbn [md_list map i_link i_act ingest_items]. cbn [eok i_act i_link i_blk] in Hok.
    assert (Hi' : incl (blocks_of suf) blocks).
    { intros x Hx. apply Hi. unfold blocks_of. cbn [flat_map]. apply in_app_iff. right. exact Hx. }
    destruct a; try contradiction.
    - destruct Hok as (b & E1 & E2 & Hok). cbn [i_blk] in E2.
      assert (Hstep : forall c, existsb (N.eqb c) (l :: dups) = true -> existsb (N.eqb c) (l :: seen) = true).
      { intros c0 H1. simpl in *. destruct (N.eqb c0 l); simpl in *; auto. }
      assert (Hstep2 : forall c, existsb (N.eqb c) (l :: seen) = true -> existsb (N.eqb c) (l :: dups) = false -> aget c blocks = None).
      { intros c0 H1 H2. simpl in *. destruct (N.eqb c0 l); simpl in *; [discriminate | now apply Hd2]. }
      destruct (existsb (N.eqb l) dups) eqn:Ed.
      + (* a duplicate within this message *)
        rewrite (Hd1 l Ed) in E2. cbn [negb] in E2. subst bo. f_equal.
        apply (IH (l :: seen) dups Hi' Hok).
        * intros c0 Hc. simpl. rewrite (Hd1 c0 Hc). apply orb_true_r.
        * intros c0 Hc Hc2. simpl in Hc. destruct (N.eqb_spec c0 l) as [E0|Hn]; [rewrite E0 in Hc2; congruence|]. simpl in Hc. now apply Hd2.
      + destruct (existsb (N.eqb l) seen) eqn:Es; cbn [negb] in E2; subst bo.
        * (* sent in an earlier message *)
          rewrite (Hd2 l Es Ed). f_equal. apply (IH (l :: seen) (l :: dups) Hi' Hok Hstep Hstep2).
        * assert (Ein : In (l, b) blocks).
          { apply Hi. unfold blocks_of. cbn [flat_map i_blk i_link]. now left. }
          rewrite (aget_of_in R blocks l b HB Ein). f_equal. apply (IH (l :: seen) (l :: dups) Hi' Hok Hstep Hstep2).
    - destruct Hok as (E1 & E2 & Hok). cbn [i_blk] in E2. subst bo. f_equal. apply (IH seen dups Hi' Hok Hd1 Hd2).
  Qed.

  Lemma ingest_chunk seen its : eok R seen its -> ingest_items (md_list its) (blocks_of its) [] = its.
  Proof.
    intro H. apply (ingest_gen2 (blocks_of its) seen [] its).
    - apply (blocks_of_R R its seen H).
    - apply incl_refl.
    - exact H.
    - intros c Hc. discriminate.
    - intros c Hc _. now apply (blocks_of_seen its seen c).
  Qed.
End Chunks.

(* ------------------------------------------------------------------------------------------------
   loader steps, whether or not the response is still open
   ------------------------------------------------------------------------------------------------ *)
Section Loader2.
  Variable below : path -> path -> bool.

  Definition lon (r : rl) : Prop :=
    q_detached (r_q r) = false /\
    (r_verifier r = None \/
     (r_verifier r = Some (VAt []) /\ t_lnk (r_record r) = None /\ r_last r = None) \/
     (q_items (r_q r) = [] /\ r_open r = false)).

  Lemma bro_start_lon r : lon r -> lon (bro_start r) /\ r_q (bro_start r) = r_q r /\ r_unfollowed (bro_start r) = r_unfollowed r /\
                                   r_open (bro_start r) = r_open r.
  Proof.
    intros (Hd & Hv). unfold bro_start. destruct (r_last r) as [a|] eqn:El.
    - split; [|repeat split]. unfold lon. simpl. split; [exact Hd|].
      destruct Hv as [Hv|[(Hv & _ & Hl)|Hv]]; [left; exact Hv | congruence | right; right; exact Hv].
    - split; [|repeat split]. unfold lon. split; [exact Hd|].
      destruct Hv as [Hv|[(Hv & Hl & _)|Hv]]; [left; exact Hv | right; left; auto | right; right; exact Hv].
  Qed.

  Lemma wait_data2 r h t :
    lon r -> q_items (r_q r) = h :: t ->
    exists r1, wait_remote r = (r1, WHasData) /\ r_verifier r1 = None /\ r_q r1 = r_q r /\
               r_open r1 = r_open r /\ r_unfollowed r1 = r_unfollowed r.
  Proof.
    intros (Hd & Hv) Hq. unfold wait_remote. rewrite Hq. simpl.
    destruct Hv as [Hv|[(Hv & Hl & _)|(Hv & _)]]; [| |congruence].
    - rewrite Hv. eexists. split; [reflexivity|]. simpl. repeat split; auto.
    - rewrite Hv. unfold vdone. rewrite Hl. eexists. split; [reflexivity|]. simpl. repeat split; auto.
  Qed.

  Lemma bro_try_closed r st p c :
    lon r -> q_items (r_q r) = [] -> r_open r = false ->
    exists r', bro_try below r st p c = (r', st, Some (load_local st p c)) /\
               lon r' /\ q_items (r_q r') = [] /\ r_unfollowed r' = r_unfollowed r /\ r_open r' = false.
  Proof.
    intros (Hd & _) Hq Ho. unfold bro_try, bro_inner, wait_remote. rewrite Hq. simpl. rewrite Ho.
    eexists. split; [reflexivity|]. unfold lon. simpl. repeat split; auto.
  Qed.

  Lemma bro_try_blocked r st p c :
    q_items (r_q r) = [] -> r_open r = true -> bro_try below r st p c = (r, st, None).
  Proof.
    intros Hq Ho. unfold bro_try, bro_inner, wait_remote. rewrite Hq. simpl. rewrite Ho, set_q_id. reflexivity.
  Qed.

  Lemma bro_try_below2 r st p c h t :
    lon r -> q_items (r_q r) = h :: t -> r_unfollowed r <> [] -> below (r_unfollowed r) p = true ->
    exists r', bro_try below r st p c = (r', st, Some (load_local st p c)) /\
               lon r' /\ q_items (r_q r') = h :: t /\ r_unfollowed r' = r_unfollowed r /\ r_open r' = r_open r.
  Proof.
    intros Hl Hq Hu Hb. destruct (wait_data2 r h t Hl Hq) as (r1 & Ew & Hv1 & Hq1 & Ho1 & Hu1).
    unfold bro_try, bro_inner. rewrite Ew. unfold still_unfollowed. rewrite Hu1.
    destruct (r_unfollowed r) as [|a l] eqn:Eu; [congruence|]. rewrite Hb.
    eexists. split; [reflexivity|]. destruct Hl as (Hd & _). unfold lon. simpl. rewrite Hq1.
    repeat split; auto.
  Qed.

  Lemma bro_try_head2 r st p c h t :
    lon r -> q_items (r_q r) = h :: t -> (r_unfollowed r = [] \/ below (r_unfollowed r) p = false) ->
    i_link h = c ->
    exists r' st' res, bro_try below r st p c = (r', st', Some res) /\
      lon r' /\ q_items (r_q r') = t /\ r_open r' = r_open r /\
      r_unfollowed r' = (if did_follow (i_act h) then [] else p) /\
      match i_blk h with
      | Some b => st' = aput c b st /\ res = RData b false
      | None => st' = st /\ res = load_local st p c
      end.
  Proof.
    intros Hl Hq Hu Hc. destruct (wait_data2 r h t Hl Hq) as (r1 & Ew & Hv1 & Hq1 & Ho1 & Hu1).
    destruct Hl as (Hd & _).
    unfold bro_try, bro_inner. rewrite Ew.
    assert (Es : exists r2, still_unfollowed below r1 p = (r2, false) /\ r_unfollowed r2 = [] /\ r_q r2 = r_q r1 /\
                            r_open r2 = r_open r1 /\ r_verifier r2 = None).
    { unfold still_unfollowed. rewrite Hu1. destruct (r_unfollowed r) as [|a l] eqn:Eu.
      - exists r1. repeat split; auto; congruence.
      - destruct Hu as [Hu|Hu]; [discriminate|]. rewrite Hu. eexists. split; [reflexivity|]. simpl. repeat split; auto; congruence. }
    destruct Es as (r2 & Es & Hu2 & Hq2 & Ho2 & Hv2). rewrite Es.
    unfold load_remote, rq_consume. rewrite Hq2, Hq1, Hq. rewrite Hc, N.eqb_refl. cbn [negb].
    unfold record_remote.
    destruct (i_blk h) as [b|] eqn:Eb; destruct (did_follow (i_act h)) eqn:Ed;
      (eexists; eexists; eexists; split; [reflexivity|]; unfold lon; simpl;
       rewrite ?Ho2, ?Hv2, ?Hu2, ?Ho1; repeat split; auto; destruct t; auto).
  Qed.
End Loader2.

(* ------------------------------------------------------------------------------------------------
   the undelivered messages of an honest response, and what processing one of them does
   ------------------------------------------------------------------------------------------------ *)
Section Feed.
  Variable R : store.

  Fixpoint mkfeed (chunks : list (list item)) : list msg :=
    match chunks with
    | [] => []
    | c :: r => match r with [] => [msg_of c StOk] | _ => msg_of c StInfo :: mkfeed r end
    end.

  Lemma mkfeed_cons c r : mkfeed (c :: r) = msg_of c (match r with [] => StOk | _ => StInfo end) :: mkfeed r.
  Proof. destruct r; reflexivity. Qed.

  Lemma mk_msgs_feed sizes its : exists chunks, mk_msgs sizes its StOk = mkfeed chunks /\ concat chunks = its /\ chunks <> [].
  Proof.
    revert its. induction sizes as [|n sizes IH]; intro its.
    - exists [its]. simpl. rewrite app_nil_r. repeat split; discriminate.
    - destruct (IH (skipn n its)) as (chunks & E & Ec & Hne). exists (firstn n its :: chunks). split; [|split; [|discriminate]].
      + cbn [mk_msgs]. rewrite E. destruct chunks; [congruence | reflexivity].
      + simpl. rewrite Ec. apply firstn_skipn.
  Qed.

  Definition msg_items (m : msg) : list item :=
    match m_resps m with [r] => ingest_items (rs_md r) (m_blocks m) [] | _ => [] end.

  Lemma feed_items seen chunks : eok R seen (concat chunks) -> flat_map msg_items (mkfeed chunks) = concat chunks.
  Proof.
    revert seen. induction chunks as [|c r IH]; intros seen H; [reflexivity|].
    rewrite mkfeed_cons. cbn [flat_map concat] in *. destruct (eok_app_inv R seen c (concat r) H) as [H1 H2].
    rewrite (IH _ H2). f_equal. unfold msg_items. cbn. apply (ingest_chunk R seen c H1).
  Qed.

  Definition mq2 (x : xstate) : list item := stq x ++ flat_map msg_items (x_feed x).

  (* processing the first undelivered message of an honest response *)
  Lemma process_info its x :
    process_msg (msg_of its StInfo) x =
    {| x_rl := ingest (md_list its) (blocks_of its) (x_rl x); x_store := x_store x; x_sent := x_sent x; x_nblocks := x_nblocks x;
       x_cancelled := x_cancelled x || false; x_errs := x_errs x; x_feed := x_feed x; x_sched := x_sched x;
       x_log := XDeliver (msg_of its StInfo) :: x_log x |}.
  Proof. reflexivity. Qed.

  Lemma ingest_open seen its r :
    eok R seen its -> r_open r = true -> q_detached (r_q r) = false ->
    let r' := ingest (md_list its) (blocks_of its) r in
    q_items (r_q r') = q_items (r_q r) ++ its /\ q_detached (r_q r') = false /\ r_open r' = true /\
    r_verifier r' = r_verifier r /\ r_record r' = r_record r /\ r_last r' = r_last r /\ r_unfollowed r' = r_unfollowed r.
  Proof.
    intros Hok Ho Hd. unfold ingest. destruct its as [|it its].
    - simpl. rewrite app_nil_r. repeat split; auto.
    - cbn [md_list map]. rewrite Ho.
      change ((i_link it, i_act it) :: map (fun it0 : item => (i_link it0, i_act it0)) its) with (md_list (it :: its)).
      rewrite (ingest_chunk R seen (it :: its) Hok). unfold rq_enqueue.
      destruct (q_items (r_q r)) as [|h t] eqn:Eq; simpl; [repeat split; auto|].
      rewrite Hd. simpl. try rewrite Eq. repeat split; auto.
  Qed.
End Feed.

(* ------------------------------------------------------------------------------------------------
   the executor state while an honest response is being delivered, and one load in it
   ------------------------------------------------------------------------------------------------ *)
Section Inv2.
  Variable R : store.
  Variable below : path -> path -> bool.

  Definition inv2 (seen : list cid) (chunks : list (list item)) (x : xstate) : Prop :=
    x_sent x = true /\ x_cancelled x = false /\ lon (x_rl x) /\
    r_open (x_rl x) = (match chunks with [] => false | _ => true end) /\
    eok R seen (stq x ++ concat chunks).

  Lemma x_with_id x : x_with_rl x (x_rl x) (x_store x) = x.
  Proof. destruct x; reflexivity. Qed.

  (* the next message arrives *)
  Lemma deliver1 seen c rest x :
    inv2 seen (c :: rest) x ->
    let x' := process_msg (msg_of c (match rest with [] => StOk | _ => StInfo end)) (x_with_feed x (mkfeed rest)) in
    inv2 seen rest x' /\ x_feed x' = mkfeed rest /\ stq x' = stq x ++ c /\ unf x' = unf x /\
    x_store x' = x_store x /\ x_errs x' = x_errs x.
  Proof.
    intros (Hs & Hc & (Hd & Hv) & Ho & Hok). cbn [concat] in Hok. rewrite app_assoc in Hok.
    destruct (eok_app_inv R _ _ _ Hok) as [Hok1 _]. destruct (eok_app_inv R _ _ _ Hok1) as [_ Hokc].
    destruct (ingest_open R _ c (x_rl x) Hokc Ho Hd) as (I1 & I2 & I3 & I4 & I5 & I6 & I7).
    assert (Hv' : r_verifier (x_rl x) = None \/ (r_verifier (x_rl x) = Some (VAt []) /\ t_lnk (r_record (x_rl x)) = None /\ r_last (x_rl x) = None)).
    { destruct Hv as [Hv|[Hv|(_ & Hv)]]; [now left | now right | congruence]. }
    assert (SO : forall r1, r_open (set_online false r1) = false /\ r_q (set_online false r1) = r_q r1 /\
                            r_verifier (set_online false r1) = r_verifier r1 /\ r_record (set_online false r1) = r_record r1 /\
                            r_last (set_online false r1) = r_last r1 /\ r_unfollowed (set_online false r1) = r_unfollowed r1)
      by (intro r1; repeat split).
    unfold stq, unf in *. destruct rest as [|c2 rest].
    - rewrite process_one. unfold delivered.
      destruct (SO (ingest (md_list c) (blocks_of c) (x_rl x))) as (S1 & S2 & S3 & S4 & S5 & S6).
      unfold inv2, stq, lon. cbn [x_rl x_store x_sent x_cancelled x_errs x_feed x_with_feed mkfeed concat].
      rewrite S1, S2, S3, S4, S5, S6, I1, I2, I4, I5, I6, I7, Hc, app_nil_r. repeat split; auto.
      destruct Hv' as [Hv'|Hv']; [now left | right; now left].
    - rewrite process_info.
      unfold inv2, stq, lon. cbn [x_rl x_store x_sent x_cancelled x_errs x_feed x_with_feed].
      rewrite I1, I2, I3, I4, I5, I6, I7, Hc. repeat split; auto;
        try (destruct Hv' as [Hv'|Hv']; [now left | right; now left]);
        try (cbn [concat] in *; rewrite <- app_assoc; rewrite <- app_assoc in Hok; exact Hok).
  Qed.

  Lemma deliver_n2 seen n : forall chunks x,
    x_feed x = mkfeed chunks -> inv2 seen chunks x ->
    exists chunks', x_feed (deliver_n n x) = mkfeed chunks' /\ inv2 seen chunks' (deliver_n n x) /\
      stq (deliver_n n x) ++ concat chunks' = stq x ++ concat chunks /\ unf (deliver_n n x) = unf x /\
      x_store (deliver_n n x) = x_store x /\ x_errs (deliver_n n x) = x_errs x.
  Proof.
    induction n as [|n IH]; intros chunks x Hf Hi; [exists chunks; simpl; auto 10|].
    destruct chunks as [|c rest].
    - exists []. simpl. rewrite Hf. simpl. auto 10.
    - cbn [deliver_n]. rewrite Hf, mkfeed_cons.
      destruct (deliver1 seen c rest x Hi) as (Hi' & Hf' & Hq' & Hu' & Hs' & He').
      destruct (IH rest _ Hf' Hi') as (chunks' & A & B & C & D & F & G).
      exists chunks'. split; [exact A|]. split; [exact B|]. rewrite C, Hq', D, Hu', F, Hs', G, He'. cbn [concat].
      rewrite <- app_assoc. auto.
  Qed.

  (* a load that finds nothing queued while more is to come waits for the next message *)
  Lemma lw_blocked seen c rest x p cc :
    inv2 seen (c :: rest) x -> stq x = [] ->
    load_wait below (mkfeed (c :: rest)) x p cc =
    load_wait below (mkfeed rest) (process_msg (msg_of c (match rest with [] => StOk | _ => StInfo end)) (x_with_feed x (mkfeed rest))) p cc.
  Proof.
    intros (_ & _ & _ & Ho & _) Hq. rewrite mkfeed_cons. cbn [load_wait].
    rewrite (bro_try_blocked below (x_rl x) (x_store x) p cc Hq Ho). rewrite x_with_id. reflexivity.
  Qed.

  Definition post (seen : list cid) (x' : xstate) (s' : list item) : Prop :=
    exists chunks', x_feed x' = mkfeed chunks' /\ inv2 seen chunks' x' /\ stq x' ++ concat chunks' = s'.

  Lemma load_local_shape st p c :
    (exists b, load_local st p c = RData b true) \/ load_local st p c = RErr (EMissing p c) true.
  Proof. unfold load_local. destruct (aget c st) as [b|]; [left; now exists b | now right]. Qed.

  (* what load_wait returns once the loader's attempt completed *)
  Lemma lw_done feed x p c r' st' res :
    bro_try below (x_rl x) (x_store x) p c = (r', st', Some res) ->
    exists x', load_wait below feed x p c = (x', Some res) /\ x_rl x' = r' /\ x_store x' = st' /\ x_feed x' = feed /\
               x_sent x' = x_sent x /\ x_cancelled x' = x_cancelled x /\ x_errs x' = x_errs x.
  Proof.
    intro Et. destruct feed as [|m f]; cbn [load_wait]; rewrite Et;
      destruct res as [b [|]|e l]; (eexists; split; [reflexivity|]); cbn; auto 10.
  Qed.

  (* L: the load is answered locally and consumes nothing *)
  Lemma lw_local seen p c : forall chunks x,
    inv2 seen chunks x ->
    (stq x ++ concat chunks = [] \/ (unf x <> [] /\ below (unf x) p = true)) ->
    exists x', load_wait below (mkfeed chunks) x p c = (x', Some (load_local (x_store x) p c)) /\
               post seen x' (stq x ++ concat chunks) /\ unf x' = unf x /\ x_store x' = x_store x /\
               x_errs x' = x_errs x.
  Proof.
    induction chunks as [|c0 rest IH]; intros x Hi Hc.
    - destruct Hi as (Hs & Hcn & Hl & Ho & Hok). cbn [concat] in *. rewrite app_nil_r in *.
      unfold stq, unf in *. destruct (q_items (r_q (x_rl x))) as [|h t] eqn:Eq.
      + destruct (bro_try_closed below (x_rl x) (x_store x) p c Hl Eq Ho) as (r' & Et & Hl' & Hq' & Hu' & Ho').
        destruct (lw_done (mkfeed []) x p c _ _ _ Et) as (x' & E & F1 & F2 & F3 & F4 & F5 & F6).
        exists x'. split; [exact E|]. split; [|rewrite F1, F2, F6; auto].
        exists []. destruct Hl' as [Hl1' Hl2']. unfold inv2, stq, lon. rewrite F1, F3, F4, F5, Hq'. cbn. repeat split; auto.
      + destruct Hc as [Hc|[Hc1 Hc2]]; [discriminate|].
        destruct (bro_try_below2 below (x_rl x) (x_store x) p c h t Hl Eq Hc1 Hc2) as (r' & Et & Hl' & Hq' & Hu' & Ho').
        destruct (lw_done (mkfeed []) x p c _ _ _ Et) as (x' & E & F1 & F2 & F3 & F4 & F5 & F6).
        exists x'. split; [exact E|]. split; [|rewrite F1, F2, F6; auto].
        exists []. destruct Hl' as [Hl1' Hl2']. unfold inv2, stq, lon. rewrite F1, F3, F4, F5, Hq', Ho'. cbn [concat]. rewrite app_nil_r. repeat split; auto.
        destruct Hl2' as [A|[A|[A B]]]; [left; exact A | right; left; exact A | rewrite Hq' in A; discriminate].
    - unfold stq in *. destruct (q_items (r_q (x_rl x))) as [|h t] eqn:Eq.
      + (* wait for the next message *)
        rewrite (lw_blocked seen c0 rest x p c Hi Eq).
        destruct (deliver1 seen c0 rest x Hi) as (Hi' & Hf' & Hq' & Hu' & Hs' & He').
        unfold stq in Hq'. rewrite Eq in Hq'. cbn [app] in Hq'.
        match goal with |- context [load_wait below (mkfeed rest) ?y p c] => set (x1 := y) in * end.
        assert (Hc' : stq x1 ++ concat rest = [] \/ (unf x1 <> [] /\ below (unf x1) p = true)).
        { unfold stq. rewrite Hq', Hu'. cbn [concat app] in Hc. exact Hc. }
        destruct (IH x1 Hi' Hc') as (x' & E & Hp & Hu2 & Hs2 & He2).
        exists x'. rewrite E, Hs'. split; [reflexivity|]. unfold stq in Hp. rewrite Hq' in Hp. cbn [concat app].
        repeat split; auto; congruence.
      + destruct Hc as [Hc|[Hc1 Hc2]]; [discriminate|].
        destruct Hi as (Hs & Hcn & Hl & Ho & Hok). unfold unf in *.
        destruct (bro_try_below2 below (x_rl x) (x_store x) p c h t Hl Eq Hc1 Hc2) as (r' & Et & Hl' & Hq' & Hu' & Ho').
        destruct (lw_done (mkfeed (c0 :: rest)) x p c _ _ _ Et) as (x' & E & F1 & F2 & F3 & F4 & F5 & F6).
        exists x'. split; [exact E|]. split; [|rewrite F1, F2, F6; auto].
        exists (c0 :: rest). destruct Hl' as [Hl1' Hl2']. unfold inv2, stq, lon. rewrite F1, F3, F4, F5, Hq', Ho'. repeat split; auto.
        * destruct Hl2' as [A|[A|[A B]]]; [left; exact A | right; left; exact A | rewrite Hq' in A; discriminate].
        * unfold stq in Hok. rewrite Eq in Hok. exact Hok.
  Qed.

  (* H: the load consumes the head of the not yet consumed response *)
  Lemma lw_head seen p c : forall chunks x h t,
    inv2 seen chunks x -> stq x ++ concat chunks = h :: t ->
    (unf x = [] \/ below (unf x) p = false) -> i_link h = c ->
    exists x' res, load_wait below (mkfeed chunks) x p c = (x', Some res) /\
      post (seen_step h seen) x' t /\ unf x' = (if did_follow (i_act h) then [] else p) /\ x_errs x' = x_errs x /\
      match i_blk h with
      | Some b => x_store x' = aput c b (x_store x) /\ res = RData b false
      | None => x_store x' = x_store x /\ res = load_local (x_store x) p c
      end.
  Proof.
    induction chunks as [|c0 rest IH]; intros x h t Hi Hst Hu Hc.
    - destruct Hi as (Hs & Hcn & Hl & Ho & Hok). cbn [concat] in *. rewrite app_nil_r in *. unfold stq, unf in *.
      destruct (bro_try_head2 below (x_rl x) (x_store x) p c h t Hl Hst Hu Hc) as (r' & st' & res & Et & Hl' & Hq' & Ho' & Hu' & Hb).
      destruct (lw_done (mkfeed []) x p c _ _ _ Et) as (x' & E & F1 & F2 & F3 & F4 & F5 & F6).
      exists x', res. split; [exact E|]. rewrite F1, F2, F6. split; [|split; [exact Hu'|split; [reflexivity|]]].
      + exists []. destruct Hl' as [Hl1' Hl2']. unfold inv2, stq, lon. rewrite F1, F3, F4, F5, Hq', Ho'. cbn [concat]. rewrite app_nil_r. repeat split; auto.
        { destruct Hl2' as [A|[A|[A B]]]; [left; exact A | right; left; exact A | right; right; split; congruence]. }
        rewrite Hst in Hok. unfold seen_step. cbn [eok] in Hok. destruct (i_act h); try contradiction.
        * destruct Hok as (b0 & _ & _ & Hok). exact Hok.
        * destruct Hok as (_ & _ & Hok). exact Hok.
      + destruct (i_blk h); destruct Hb as [-> ->]; auto.
    - unfold stq in *. destruct (q_items (r_q (x_rl x))) as [|h0 t0] eqn:Eq.
      + rewrite (lw_blocked seen c0 rest x p c Hi Eq).
        destruct (deliver1 seen c0 rest x Hi) as (Hi' & Hf' & Hq' & Hu' & Hs' & He').
        unfold stq in Hq'. rewrite Eq in Hq'. cbn [app] in Hq'.
        match goal with |- context [load_wait below (mkfeed rest) ?y p c] => set (x1 := y) in * end.
        assert (Hst' : stq x1 ++ concat rest = h :: t) by (unfold stq; rewrite Hq'; exact Hst).
        assert (Hu1 : unf x1 = [] \/ below (unf x1) p = false) by (rewrite Hu'; exact Hu).
        destruct (IH x1 h t Hi' Hst' Hu1 Hc) as (x' & res & E & Hp & Hu2 & He2 & Hb).
        exists x', res. rewrite E, <- Hs', <- He'. auto.
      + destruct Hi as (Hs & Hcn & Hl & Ho & Hok). cbn [app] in Hst. inversion Hst; subst h0. unfold unf in *.
        destruct (bro_try_head2 below (x_rl x) (x_store x) p c h t0 Hl Eq Hu Hc) as (r' & st' & res & Et & Hl' & Hq' & Ho' & Hu' & Hb).
        destruct (lw_done (mkfeed (c0 :: rest)) x p c _ _ _ Et) as (x' & E & F1 & F2 & F3 & F4 & F5 & F6).
        exists x', res. split; [exact E|]. rewrite F1, F2, F6. split; [|split; [exact Hu'|split; [reflexivity|]]].
        * exists (c0 :: rest). destruct Hl' as [Hl1' Hl2']. unfold inv2, stq, lon. rewrite F1, F3, F4, F5, Hq', Ho'. repeat split; auto.
          { destruct Hl2' as [A|[A|[A B]]]; [left; exact A | right; left; exact A | right; right; split; congruence]. }
          unfold stq in Hok. rewrite Eq in Hok. cbn [app eok] in Hok. unfold seen_step. destruct (i_act h); try contradiction.
          -- destruct Hok as (b0 & _ & _ & Hok). exact Hok.
          -- destruct Hok as (_ & _ & Hok). exact Hok.
        * destruct (i_blk h); destruct Hb as [-> ->]; auto.
  Qed.
End Inv2.

(* ------------------------------------------------------------------------------------------------
   load_call and exec_ask under arbitrary delivery; the stream interface of the simulation
   ------------------------------------------------------------------------------------------------ *)
Section Exec2.
  Variable R : store.
  Variable below : path -> path -> bool.
  Variable responder : N -> list msg.
  Variable dnsfb : N.

  Definition onl2 (seen : list cid) (x : xstate) : Prop :=
    exists chunks, x_feed x = mkfeed chunks /\ inv2 R seen chunks x.

  Lemma mq2_eq seen chunks x : x_feed x = mkfeed chunks -> inv2 R seen chunks x -> mq2 x = stq x ++ concat chunks.
  Proof.
    intros Hf (_ & _ & _ & _ & Hok). unfold mq2. rewrite Hf.
    destruct (eok_app_inv R _ _ _ Hok) as [_ H2]. now rewrite (feed_items R _ chunks H2).
  Qed.

  Lemma bro_start_inv2 seen chunks x :
    inv2 R seen chunks x ->
    let x2 := x_with_rl x (bro_start (x_rl x)) (x_store x) in
    inv2 R seen chunks x2 /\ stq x2 = stq x /\ unf x2 = unf x /\ x_store x2 = x_store x /\ x_errs x2 = x_errs x /\ x_feed x2 = x_feed x.
  Proof.
    intros (Hs & Hc & Hl & Ho & Hok). destruct (bro_start_lon (x_rl x) Hl) as (Hl' & Hq' & Hu' & Ho').
    unfold inv2, stq, unf. cbn [x_with_rl x_rl x_store x_sent x_cancelled x_errs x_feed]. rewrite Hq', Ho', Hu'.
    unfold stq in Hok. destruct Hl' as [Hl1' Hl2']. unfold lon. repeat split; auto.
  Qed.

  (* the state in which load_wait is entered *)
  Lemma load_call_enter seen x p c :
    onl2 seen x ->
    exists chunks' x2, load_call below x p c = load_wait below (mkfeed chunks') x2 p c /\
      inv2 R seen chunks' x2 /\ stq x2 ++ concat chunks' = mq2 x /\ unf x2 = unf x /\ x_store x2 = x_store x /\ x_errs x2 = x_errs x.
  Proof.
    intros (chunks & Hf & Hi). unfold load_call. destruct (pop_sched x) as [n x0] eqn:Ep.
    assert (H0 : x_feed x0 = mkfeed chunks /\ inv2 R seen chunks x0 /\ stq x0 = stq x /\ unf x0 = unf x /\
                 x_store x0 = x_store x /\ x_errs x0 = x_errs x).
    { unfold pop_sched in Ep. destruct (x_sched x); inversion Ep; subst; simpl; auto 10. }
    destruct H0 as (Hf0 & Hi0 & Hq0 & Hu0 & Hs0 & He0).
    destruct (deliver_n2 R seen n chunks x0 Hf0 Hi0) as (chunks' & A & B & C & D & F & G).
    destruct (bro_start_inv2 seen chunks' _ B) as (B2 & Q2 & U2 & S2 & E2 & F2). cbv zeta in *.
    exists chunks'. eexists. split; [rewrite F2, A; reflexivity|]. split; [exact B2|].
    split; [|split; [|split]].
    - rewrite Q2, C, Hq0. symmetry. apply (mq2_eq seen chunks x Hf Hi).
    - rewrite U2, D. exact Hu0.
    - rewrite S2, F. exact Hs0.
    - rewrite E2, G. exact He0.
  Qed.

  (* exec_ask once a request has been sent: the load call, then the traversal's answer *)
  Lemma exec_of_load x p c x1 res :
    x_sent x = true -> load_call below x p c = (x1, Some res) -> x_sent x1 = true -> x_cancelled x1 = false ->
    exists x', exec_ask below responder dnsfb x p c = (x', ans_of res) /\ x_rl x' = x_rl x1 /\ x_store x' = x_store x1 /\
               x_feed x' = x_feed x1 /\ x_sent x' = true /\ x_cancelled x' = false /\ x_errs x' = x_errs x1 ++ errs_of res.
  Proof.
    intros Hs E Hs1 Hc1. unfold exec_ask. rewrite E.
    destruct res as [b l|e l].
    - simpl. eexists. split; [reflexivity|]. simpl. rewrite app_nil_r. auto 10.
    - destruct e; simpl; rewrite ?Hs1; simpl; rewrite ?Hc1; simpl; (eexists; split; [reflexivity|]); simpl; auto 10.
  Qed.

  Lemma post_onl2 seen x' s' : post R seen x' s' -> onl2 seen x' /\ mq2 x' = s'.
  Proof.
    intros (chunks' & Hf & Hi & Hs). split; [exists chunks'; auto|]. now rewrite (mq2_eq seen chunks' x' Hf Hi).
  Qed.

  Lemma onl2_transfer seen x1 x' :
    onl2 seen x1 -> x_rl x' = x_rl x1 -> x_feed x' = x_feed x1 -> x_sent x' = true -> x_cancelled x' = false ->
    onl2 seen x' /\ mq2 x' = mq2 x1 /\ unf x' = unf x1.
  Proof.
    intros (chunks & Hf & (Hs & Hc & Hl & Ho & Hok)) Er Ef Hs' Hc'.
    split; [|unfold mq2, stq, unf; now rewrite Er, Ef].
    exists chunks. split; [congruence|]. unfold inv2, stq in *. rewrite Er. auto.
  Qed.

  Theorem H_local2 seen x p c :
    onl2 seen x -> (mq2 x = [] \/ (unf x <> [] /\ below (unf x) p = true)) ->
    exists x', exec_ask below responder dnsfb x p c = (x', local_ans (x_store x) c) /\ onl2 seen x' /\
               mq2 x' = mq2 x /\ unf x' = unf x /\ x_store x' = x_store x /\
               x_errs x' = x_errs x ++ local_errs (x_store x) p c.
  Proof.
    intros Hx Hc. pose proof Hx as (chunks0 & _ & (Hs & _)).
    destruct (load_call_enter seen x p c Hx) as (chunks' & x2 & E & Hi2 & Hm & Hu & Hst & He).
    assert (Hc2 : stq x2 ++ concat chunks' = [] \/ (unf x2 <> [] /\ below (unf x2) p = true)) by (rewrite Hm, Hu; exact Hc).
    destruct (lw_local R below seen p c chunks' x2 Hi2 Hc2) as (x1 & E1 & Hp & Hu1 & Hs1 & He1).
    rewrite <- E in E1. destruct (post_onl2 seen x1 _ Hp) as [Ho1 Hm1].
    pose proof Ho1 as (ch1 & _ & (Hs1' & Hc1' & _)).
    destruct (exec_of_load x p c x1 _ Hs E1 Hs1' Hc1') as (x' & Ex & F1 & F2 & F3 & F4 & F5 & F6).
    destruct (onl2_transfer seen x1 x' Ho1 F1 F3 F4 F5) as (G1 & G2 & G3).
    destruct (load_local_ans (x_store x) p c) as [A1 A2]. rewrite Hst in Ex, F6.
    exists x'. split; [rewrite <- A1; exact Ex|]. split; [exact G1|].
    split; [rewrite G2, Hm1; exact Hm|]. split; [rewrite G3, Hu1; exact Hu|].
    split; [rewrite F2, Hs1; exact Hst|]. rewrite F6, He1, He, A2. reflexivity.
  Qed.

  Theorem H_head2 seen x p c h t :
    onl2 seen x -> mq2 x = h :: t -> (unf x = [] \/ below (unf x) p = false) -> i_link h = c ->
    exists x' a, exec_ask below responder dnsfb x p c = (x', a) /\ onl2 (seen_step h seen) x' /\ mq2 x' = t /\
      unf x' = (if did_follow (i_act h) then [] else p) /\
      match i_blk h with
      | Some b => a = AOk /\ x_store x' = aput c b (x_store x) /\ x_errs x' = x_errs x
      | None => a = local_ans (x_store x) c /\ x_store x' = x_store x /\ x_errs x' = x_errs x ++ local_errs (x_store x) p c
      end.
  Proof.
    intros Hx Hq Hu Hc. pose proof Hx as (chunks0 & _ & (Hs & _)).
    destruct (load_call_enter seen x p c Hx) as (chunks' & x2 & E & Hi2 & Hm & Hu2 & Hst & He).
    assert (Hq2 : stq x2 ++ concat chunks' = h :: t) by (rewrite Hm; exact Hq).
    assert (Hu2' : unf x2 = [] \/ below (unf x2) p = false) by (rewrite Hu2; exact Hu).
    destruct (lw_head R below seen p c chunks' x2 h t Hi2 Hq2 Hu2' Hc) as (x1 & res & E1 & Hp & Hu1 & He1 & Hb).
    rewrite <- E in E1. destruct (post_onl2 _ x1 _ Hp) as [Ho1 Hm1].
    pose proof Ho1 as (ch1 & _ & (Hs1' & Hc1' & _)).
    destruct (exec_of_load x p c x1 _ Hs E1 Hs1' Hc1') as (x' & Ex & F1 & F2 & F3 & F4 & F5 & F6).
    destruct (onl2_transfer _ x1 x' Ho1 F1 F3 F4 F5) as (G1 & G2 & G3).
    exists x', (ans_of res). split; [exact Ex|]. split; [exact G1|]. split; [now rewrite G2|]. split; [now rewrite G3|].
    destruct (i_blk h) as [b|].
    - destruct Hb as [Hb1 ->]. simpl in *. rewrite app_nil_r in F6.
      split; [reflexivity|]. split; [rewrite F2, Hb1, Hst; reflexivity|]. rewrite F6, He1, He. reflexivity.
    - destruct Hb as [Hb1 ->]. destruct (load_local_ans (x_store x) p c) as [A1 A2]. rewrite Hst in *. rewrite A1. rewrite A2 in F6.
      split; [reflexivity|]. split; [rewrite F2, Hb1; reflexivity|]. rewrite F6, He1, He. reflexivity.
  Qed.

  (* the load-call part of H_head2 *)
  Lemma load_head2 seen x p c h t :
    onl2 seen x -> mq2 x = h :: t -> (unf x = [] \/ below (unf x) p = false) -> i_link h = c ->
    exists x1 res, load_call below x p c = (x1, Some res) /\ onl2 (seen_step h seen) x1 /\ mq2 x1 = t /\
      unf x1 = (if did_follow (i_act h) then [] else p) /\ x_errs x1 = x_errs x /\
      match i_blk h with
      | Some b => x_store x1 = aput c b (x_store x) /\ res = RData b false
      | None => x_store x1 = x_store x /\ res = load_local (x_store x) p c
      end.
  Proof.
    intros Hx Hq Hu Hc.
    destruct (load_call_enter seen x p c Hx) as (chunks' & x2 & E & Hi2 & Hm & Hu2 & Hst & He).
    assert (Hq2 : stq x2 ++ concat chunks' = h :: t) by (rewrite Hm; exact Hq).
    assert (Hu2' : unf x2 = [] \/ below (unf x2) p = false) by (rewrite Hu2; exact Hu).
    destruct (lw_head R below seen p c chunks' x2 h t Hi2 Hq2 Hu2' Hc) as (x1 & res & E1 & Hp & Hu1 & He1 & Hb).
    rewrite <- E in E1. destruct (post_onl2 _ x1 _ Hp) as [Ho1 Hm1].
    exists x1, res. split; [exact E1|]. split; [exact Ho1|]. split; [exact Hm1|]. split; [exact Hu1|].
    split; [now rewrite He1|]. rewrite Hst in Hb. exact Hb.
  Qed.
End Exec2.

(* ------------------------------------------------------------------------------------------------
   going online at the root; the theorem
   ------------------------------------------------------------------------------------------------ *)
Section Top2.
  Variable R : store.

  Lemma first_step2 p c body L sizes sched b :
    aget c L = None -> aget c R = Some b ->
    let t := LNode p c body in
    let its := fst (emit_items R body [c]) in
    exists x1, exec_ask proper_prefix (honest t R sizes) 0 (x_init L [] sched) p c = (x1, AOk) /\
               onl2 R [c] x1 /\ mq2 x1 = its /\ unf x1 = [] /\ x_store x1 = aput c b L /\ x_errs x1 = [].
  Proof.
    intros HL HR t its.
    set (ra := {| r_open := false; r_q := rq_empty; r_verifier := None; r_record := trec_empty;
                  r_last := Some {| a_path := p; a_link := c; a_ok := false; a_remote := false |}; r_unfollowed := [] |}).
    assert (Ea : bro_try proper_prefix rl_new L p c = (ra, L, Some (RErr (EMissing p c) true))).
    { unfold bro_try, bro_inner, wait_remote, load_local. simpl. rewrite HL. reflexivity. }
    set (full := fst (emit_tree R t [])).
    destruct (mk_msgs_feed sizes full) as (chunks & Emk & Ecc & Hne).
    assert (Est : honest t R sizes 0 = mkfeed chunks).
    { unfold honest, resp_status. cbn [root_cid t]. rewrite HR. rewrite resp_items_emit. exact Emk. }
    assert (Eem : full = {| i_link := c; i_act := Present; i_blk := Some b |} :: its).
    { unfold full, t, its. now rewrite (emit_root_present R p c body b [] HR). }
    assert (Hok : eok R [] full) by (unfold full; apply (proj1 (emit_ok R))).
    unfold exec_ask, load_call at 1. unfold pop_sched, x_init. cbn [x_sched].
    assert (Estage : forall sch n,
      let x0 := {| x_rl := rl_new; x_store := L; x_sent := false; x_nblocks := 0; x_cancelled := false; x_errs := []; x_feed := []; x_sched := sch; x_log := [] |} in
      load_wait proper_prefix (x_feed (x_with_rl (deliver_n n x0) (bro_start (x_rl (deliver_n n x0))) (x_store (deliver_n n x0))))
                (x_with_rl (deliver_n n x0) (bro_start (x_rl (deliver_n n x0))) (x_store (deliver_n n x0))) p c =
      ({| x_rl := ra; x_store := L; x_sent := false; x_nblocks := 0; x_cancelled := false; x_errs := []; x_feed := []; x_sched := sch; x_log := [] |},
       Some (RErr (EMissing p c) true))).
    { intros sch n x0. unfold x0. rewrite deliver_n_nofeed by reflexivity. cbn [x_with_rl x_feed x_rl x_store load_wait].
      change (bro_start rl_new) with rl_new. rewrite Ea. reflexivity. }
    assert (Estage' : exists sch,
      (let '(n, x0) := match sched with [] => (0%nat, {| x_rl := rl_new; x_store := L; x_sent := false; x_nblocks := 0; x_cancelled := false; x_errs := []; x_feed := []; x_sched := sched; x_log := [] |})
                                       | n :: s => (n, {| x_rl := rl_new; x_store := L; x_sent := false; x_nblocks := 0; x_cancelled := false; x_errs := []; x_feed := []; x_sched := s; x_log := [] |}) end in
       load_wait proper_prefix (x_feed (x_with_rl (deliver_n n x0) (bro_start (x_rl (deliver_n n x0))) (x_store (deliver_n n x0))))
                 (x_with_rl (deliver_n n x0) (bro_start (x_rl (deliver_n n x0))) (x_store (deliver_n n x0))) p c) =
      ({| x_rl := ra; x_store := L; x_sent := false; x_nblocks := 0; x_cancelled := false; x_errs := []; x_feed := []; x_sched := sch; x_log := [] |},
       Some (RErr (EMissing p c) true))).
    { destruct sched as [|n s]; eexists; apply Estage. }
    destruct Estage' as (sch & Es). cbn [x_rl x_store x_sent x_nblocks x_cancelled x_errs x_feed x_sched x_log] in Es |- *.
    rewrite Es. cbn [x_sent x_cancelled]. unfold retry_call, go_online, retry_prepare.
    cbn [x_rl x_store x_sent x_nblocks x_cancelled x_errs x_feed x_sched x_log set_online r_open r_last andb negb ra set_verifier set_q a_remote a_path a_link x_with_rl].
    change (N.max 0 0) with 0. rewrite Est. cbn [app].
    match goal with |- context [load_call proper_prefix ?xx p c] => set (x1 := xx) end.
    assert (Hx1 : onl2 R [] x1).
    { exists chunks. split; [reflexivity|]. unfold inv2, stq, lon. cbn. rewrite Ecc.
      repeat split; auto. destruct chunks; [congruence | reflexivity]. }
    assert (Hm1 : mq2 x1 = {| i_link := c; i_act := Present; i_blk := Some b |} :: its).
    { destruct Hx1 as (ch & Hf & Hi). rewrite (mq2_eq R [] ch x1 Hf Hi).
      assert (ch = chunks \/ True) by (right; exact I).
      unfold stq. cbn [x1 x_rl r_q q_items rq_empty app].
      assert (Hfe : mkfeed ch = mkfeed chunks) by (rewrite <- Hf; reflexivity).
      destruct Hi as (_ & _ & _ & _ & Hoki). unfold stq in Hoki. cbn in Hoki.
      rewrite <- (feed_items R [] ch Hoki), Hfe, (feed_items R [] chunks); [rewrite Ecc; exact Eem | rewrite Ecc; exact Hok]. }
    destruct (load_head2 R proper_prefix [] x1 p c _ its Hx1 Hm1 (or_introl eq_refl) eq_refl) as (x2 & res & E2 & Ho2 & Hq2 & Hu2 & He2 & Hb).
    cbn [i_blk i_act did_follow] in Hu2, Hb. destruct Hb as [Hst ->]. unfold seen_step in Ho2. cbn [i_act i_link] in Ho2.
    rewrite E2. eexists. split; [reflexivity|].
    pose proof Ho2 as (ch2 & Hf2 & (S2 & C2 & _)).
    destruct (onl2_transfer R [c] x2 (x_logged x2 (XLoad p c (RData b false))) Ho2 eq_refl eq_refl S2 C2) as (G1 & G2 & G3).
    assert (Hfin : forall y, x_rl y = x_rl x2 -> x_feed y = x_feed x2 -> x_sent y = true -> x_cancelled y = false ->
                             onl2 R [c] y /\ mq2 y = mq2 x2 /\ unf y = unf x2) by (intros y A B C D; apply (onl2_transfer R [c] x2 y Ho2 A B C D)).
    match goal with |- onl2 R [c] ?y /\ _ => destruct (Hfin y eq_refl eq_refl S2 C2) as (K1 & K2 & K3) end.
    split; [exact K1|]. split; [rewrite K2; exact Hq2|]. split; [rewrite K3; exact Hu2|].
    cbn [x_store x_errs x_logged]. split; [exact Hst | exact He2].
  Qed.

  Theorem c02_online_chunks t L sizes sched :
    wf_plan t = true -> agree R L ->
    aget (root_cid t) L = None -> aget (root_cid t) R <> None ->
    model_outcome t L R sizes sched = ref_outcome t L R.
  Proof.
    destruct t as [p c body]. intros Hwf Hag HL HR. cbn [root_cid] in HL, HR.
    unfold wf_plan in Hwf. cbn [tpath] in Hwf. destruct p as [|s p]; [|discriminate].
    destruct (aget c R) as [b|] eqn:ER; [|congruence]. clear HR.
    unfold model_outcome, ref_outcome, run_request. rewrite run_tree_node, ref_tree_eq, HL, ER.
    destruct (first_step2 [] c body L sizes sched b HL ER) as (x1 & E1 & Hx1 & Hq1 & Hu1 & Hs1 & He1).
    cbv zeta in E1. rewrite E1.
    pose proof Hwf as Hw0. simpl in Hwf. apply andb_true_iff in Hwf as [Hw Hwi]. apply andb_true_iff in Hw as [Hwb Hwp].
    assert (Hn : forall q, In q (child_paths body) -> q <> []).
    { intros q Hin. rewrite forallb_forall in Hwb. specialize (Hwb q Hin). intro Hz. subst q. discriminate. }
    destruct (sim_all R (honest (LNode [] c body) R sizes) 0 (onl2 R) mq2
                (H_local2 R proper_prefix (honest (LNode [] c body) R sizes) 0)
                (H_head2 R proper_prefix (honest (LNode [] c body) R sizes) 0)) as [_ Hit].
    destruct (Hit body) as [HIT _].
    assert (Ha1 : agree R (x_store x1)) by (rewrite Hs1; now apply agree_aput).
    assert (Hc1 : covers (x_store x1) [c]).
    { rewrite Hs1. apply covers_aput. intros c' []. }
    assert (Hq1' : mq2 x1 = fst (emit_items R body [c]) ++ []) by (now rewrite app_nil_r).
    specialize (HIT x1 [c] [] Hx1 Ha1 Hc1 Hwi Hwp Hn Hq1' (or_introl Hu1)). rewrite Hs1 in HIT.
    destruct (run_items (exec_ask proper_prefix (honest (LNode [] c body) R sizes) 0) body x1) as [[x2 evs] ok].
    destruct (ref_items R body true (aput c b L)) as [st' o].
    destruct HIT as (A & B & C & D & F & G & H & I & J). subst ok.
    destruct B as (ch & _ & (_ & Hcan & _)).
    unfold outcome_of, final_errs. cbn [fst snd o_visits o_missing o_other_errs o_store o_complete]. rewrite Hcan.
    rewrite H, He1. cbn [app visits_of]. rewrite missing_of_merrs, I, C, length_merrs.
    f_equal. apply N.add_0_r || lia.
  Qed.
End Top2.
