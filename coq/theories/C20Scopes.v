(* C20Scopes.v — C20 for two requests in DIFFERENT deduplication scopes whose plans may share blocks: whatever the
   interleaving of the two responder traversals, the request whose traversal the requestor runs first ends as it
   would alone; the other one starts from the store the first one left — its stream was built for the smaller
   do-not-send-first-blocks value of the initial store — and ends as the reference says for THAT store (it never
   does worse than alone; it may find blocks of the other request already stored). *)
From Coq Require Import List Arith NArith Bool Lia ZifyBool ZifyNat ZifyN.
From GS Require Import Base Ltree RecLoader ReqExec RecLoaderProofs C02Online C02Chunks C02Prefix C02PrefixProofs C02Contig C02Replay C02Run C06Guard C06GuardProofs.
From GS Require Import LinkTracker LinkTrackerProofs Concurrent ConcurrentGen C20Tracker C20Streams C20Disjoint C20Resp.
Import ListNotations.
Open Scope N_scope.
Local Arguments N.add : simpl never.

Lemma lpre_mono L st l : (forall c, aget c L <> None -> aget c st <> None) -> (fst (lpre L l) <= fst (lpre st l))%nat.
Proof.
  intro H. induction l as [|[q c] l IH]; cbn [lpre]; [lia|].
  destruct (aget c L) as [b|] eqn:EL.
  - assert (Hs : aget c st <> None) by (apply H; congruence). destruct (aget c st); [|congruence].
    destruct (lpre L l) as [n1 b1]. destruct (lpre st l) as [n2 b2]. cbn [fst] in *. lia.
  - cbn [fst]. lia.
Qed.

Lemma ref_keeps R :
  (forall t here st c, aget c st <> None -> aget c (fst (ref_tree R t here st)) <> None) /\
  (forall l here st c, aget c st <> None -> aget c (fst (ref_items R l here st)) <> None).
Proof.
  apply (ltree_items_ind
    (fun t => forall here st c, aget c st <> None -> aget c (fst (ref_tree R t here st)) <> None)
    (fun l => forall here st c, aget c st <> None -> aget c (fst (ref_items R l here st)) <> None)).
  - intros p c body IH here st c0 H. rewrite ref_tree_eq.
    assert (Hput : forall b, aget c0 (aput c b st) <> None).
    { intro b. destruct (N.eqb_spec c c0) as [->|Hn]; [rewrite aget_aput_eq; discriminate | now rewrite aget_aput_neq]. }
    destruct (if here then aget c R else None) as [b|].
    + specialize (IH true (aput c b st) c0 (Hput b)). destruct (ref_items R body true (aput c b st)). destruct (aget c st); exact IH.
    + destruct (aget c st); [apply (IH false st c0 H) | exact H].
  - intros here st c0 H. exact H.
  - intros v r IH here st c0 H. rewrite ref_items_visit. specialize (IH here st c0 H). destruct (ref_items R r here st). exact IH.
  - intros t IHt r IHr here st c0 H. rewrite ref_items_child. specialize (IHt here st c0 H).
    destruct (ref_tree R t here st) as [st1 o1]. cbn [fst] in IHt. specialize (IHr here st1 c0 IHt).
    destruct (ref_items R r here st1). exact IHr.
Qed.

(* the guards of the request that runs second, over the store it starts from *)
Definition guards2 (t : ltree) (st R : store) : bool :=
  wf_plan t && contiguous t && (match aget (root_cid t) R with Some _ => true | None => false end) &&
  no_local_below_missing t st R.

(* a request run from a store that contains L, with the stream built for L *)
Lemma one_run_later t L R st dv :
  guards2 t st R = true -> agree R st -> (forall c, aget c L <> None -> aget c st <> None) ->
  let r := run_one_gen t R st (resp_items t R (skip_of t L)) dv in
  same_result (mk_outcome r) (ref_outcome t st R) = true.
Proof.
  intros Hg Hag Hsub. unfold guards2 in Hg.
  apply andb_true_iff in Hg as [Hg Hnlb]. apply andb_true_iff in Hg as [Hg HR]. apply andb_true_iff in Hg as [Hwf Hct].
  assert (HR' : aget (root_cid t) R <> None) by (destruct (aget (root_cid t) R); [discriminate | discriminate]).
  cbv zeta. unfold run_one_gen.
  set (k2 := skip_of t L).
  set (f' := fun k : N => honest t R (dv_sizes dv) (N.min k k2)).
  assert (Hk : k2 <= N.of_nat (fst (lpre st (tnodes t)))).
  { unfold k2. rewrite skip_of_lpre. pose proof (lpre_mono L st (tnodes t) Hsub). lia. }
  rewrite (run_congr (fun _ => mk_msgs (dv_sizes dv) (resp_items t R k2) (resp_status t R)) f' st t (dv_sched dv))
    by (intros _; unfold f', honest; now rewrite N.min_r by exact Hk).
  assert (Hresp : forall k, exists nbf, f' k = honest t R (dv_sizes dv) (N.of_nat nbf) /\ N.of_nat nbf <= k).
  { intro k. exists (N.to_nat (N.min k k2)). rewrite N2Nat.id. split; [reflexivity | lia]. }
  pose proof (resp_run_full t st R (dv_sizes dv) f' (dv_sched dv) Hresp Hwf Hct Hag HR' Hnlb) as Hrun.
  unfold C02Run.run_ok in Hrun.
  destruct (run_request proper_prefix f' 0 t st [] (dv_sched dv)) as [[x evs] ok].
  unfold ref_outcome. destruct (ref_tree R t true st) as [st' o].
  destruct Hrun as (A & B & C & D & F & (evs' & G)).
  unfold same_result, mk_outcome, outcome_of, final_errs.
  cbn [fst snd o_visits o_missing o_other_errs]. rewrite B, A, D, F, G, missing_of_merrs, length_merrs.
  rewrite (list_eqb_refl N.eqb N.eqb_eq), (list_eqb_refl pc_eqb pc_eqb_eq). cbn [andb root_skipped].
  apply N.eqb_eq. lia.
Qed.

Theorem c20_scopes (L R : store) (q1 q2 : creq) (order : list bool) (first2 : bool) (dv1 dv2 : delivery) :
  cq_dedup q1 <> cq_dedup q2 -> agree R L ->
  (if first2
   then c02_guards (cq_plan q2) L R = true /\ guards2 (cq_plan q1) (fst (ref_tree R (cq_plan q2) true L)) R = true
   else c02_guards (cq_plan q1) L R = true /\ guards2 (cq_plan q2) (fst (ref_tree R (cq_plan q1) true L)) R = true) ->
  let r := run_two_gen L R q1 q2 order first2 dv1 dv2 in
  if first2
  then same_result (snd r) (solo L R q2) = true /\
       same_result (fst r) (ref_outcome (cq_plan q1) (fst (ref_tree R (cq_plan q2) true L)) R) = true
  else same_result (fst r) (solo L R q1) = true /\
       same_result (snd r) (ref_outcome (cq_plan q2) (fst (ref_tree R (cq_plan q1) true L)) R) = true.
Proof.
  intros Hd Hag Hg. cbv zeta. unfold run_two_gen, solo.
  rewrite (c20_streams R q1 q2 _ _ order (or_introl Hd)).
  assert (Hm0 : forall t, meq (plan_cids t) L L) by (intros t c _; tauto).
  destruct first2; destruct Hg as [G1 G2].
  - destruct (one_run (cq_plan q2) L R L dv2 G1 Hag Hag (Hm0 _)) as [S2 St2]. cbv zeta in S2, St2.
    set (rb := run_one_gen (cq_plan q2) R L (resp_items (cq_plan q2) R (skip_of (cq_plan q2) L)) dv2) in *.
    cbn [fst snd]. split; [exact S2|]. rewrite St2.
    apply (one_run_later (cq_plan q1) L R _ dv1 G2).
    + now apply (proj1 (ref_agree R)).
    + intros c Hc. now apply (proj1 (ref_keeps R)).
  - destruct (one_run (cq_plan q1) L R L dv1 G1 Hag Hag (Hm0 _)) as [S1 St1]. cbv zeta in S1, St1.
    set (ra := run_one_gen (cq_plan q1) R L (resp_items (cq_plan q1) R (skip_of (cq_plan q1) L)) dv1) in *.
    cbn [fst snd]. split; [exact S1|]. rewrite St1.
    apply (one_run_later (cq_plan q2) L R _ dv2 G2).
    + now apply (proj1 (ref_agree R)).
    + intros c Hc. now apply (proj1 (ref_keeps R)).
Qed.
